"""Definition of harness binaries and of the runs that make up each check."""

SEQ_SOURCES = ["seq/main.cpp", "seq/m_map.cpp", "seq/m_scan.cpp", "seq/m_phantom.cpp", "seq/m_iscan.cpp",
               "seq/m_nodeinfo.cpp", "seq/m_storage.cpp", "seq/m_value.cpp", "seq/m_memusage.cpp", "common/allocreg.cpp"]

BINARIES = {
    # sequential differential harnesses; epoch period 1 ms so reclamation is live during the programs
    "seq-asan": {"flavor": "asan", "sources": SEQ_SOURCES,
                 "defines": {"YAKUSHIMA_EPOCH_TIME": 1, "YAKUSHIMA_MAX_PARALLEL_SESSIONS": 64}},
}


def run(name, binary, timeout=600, repeat=1, **args):
    return {"name": name, "bin": binary, "args": args, "timeout": timeout, "repeat": repeat}


CHECKS = {
    "C02": {
        "title": "single-session behaviour equals an ordered byte-string map",
        "quick": [run("seq_map", "seq-asan", mode="map", prop="C02", programs=400, ops=300, repeat=2)],
        "thorough": [run("seq_map", "seq-asan", mode="map", prop="C02", programs=6000, ops=400, huge=2, repeat=16, timeout=3000)],
        "parallel": {"quick": 2, "thorough": 16},
    },
    "C03": {
        "title": "quiescent range scan equals the interval content",
        "quick": [run("seq_scan", "seq-asan", mode="scan", prop="C03", trees=150, scans=120, repeat=2)],
        "thorough": [run("seq_scan", "seq-asan", mode="scan", prop="C03", trees=3000, scans=200, repeat=16, timeout=3000)],
        "parallel": {"quick": 2, "thorough": 16},
    },
    "C05": {
        "title": "node-version sets detect later inserts",
        "quick": [run("seq_phantom", "seq-asan", mode="phantom", prop="C05", trees=120, reads=14, cands=10, repeat=2)],
        "thorough": [run("seq_phantom", "seq-asan", mode="phantom", prop="C05", trees=3000, reads=20, cands=14, repeat=16, timeout=3000)],
        "parallel": {"quick": 2, "thorough": 16},
    },
    "C12": {
        "title": "put reports exactly the borders whose version changed",
        "quick": [run("seq_nodeinfo", "seq-asan", mode="nodeinfo", prop="C12", programs=120, puts=120, repeat=2)],
        "thorough": [run("seq_nodeinfo", "seq-asan", mode="nodeinfo", prop="C12", programs=2500, puts=200, repeat=16, timeout=3000)],
        "parallel": {"quick": 2, "thorough": 16},
    },
    "C20": {
        "title": "mem_usage equals an independent census",
        "quick": [run("seq_memusage", "seq-asan", mode="memusage", prop="C20", trees=150, snaps=20, repeat=2)],
        "thorough": [run("seq_memusage", "seq-asan", mode="memusage", prop="C20", trees=4000, snaps=30, repeat=16, timeout=3000)],
        "parallel": {"quick": 2, "thorough": 16},
    },
}
