"""Definition of harness binaries and of the runs that make up each check."""

SEQ_SOURCES = ["seq/main.cpp", "seq/m_map.cpp", "seq/m_scan.cpp", "seq/m_phantom.cpp", "seq/m_iscan.cpp",
               "seq/m_nodeinfo.cpp", "seq/m_storage.cpp", "seq/m_value.cpp", "seq/m_memusage.cpp", "common/allocreg.cpp"]

BINARIES = {
    # sequential differential harnesses; epoch period 1 ms so reclamation is live during the programs
    "seq-asan": {"flavor": "asan", "sources": SEQ_SOURCES,
                 "defines": {"YAKUSHIMA_EPOCH_TIME": 1, "YAKUSHIMA_MAX_PARALLEL_SESSIONS": 64}},
    "unit-asan": {"flavor": "asan", "sources": ["unit/main.cpp", "unit/u_version.cpp", "unit/u_compare.cpp", "unit/u_perm.cpp", "common/allocreg.cpp"],
                  "defines": {"YAKUSHIMA_EPOCH_TIME": 1, "YAKUSHIMA_MAX_PARALLEL_SESSIONS": 64}},
    "unit-plain": {"flavor": "plain", "sources": ["unit/main.cpp", "unit/u_version.cpp", "unit/u_compare.cpp", "unit/u_perm.cpp", "common/allocreg.cpp"],
                   "defines": {"YAKUSHIMA_EPOCH_TIME": 1, "YAKUSHIMA_MAX_PARALLEL_SESSIONS": 64}},
    "conc-plain": {"flavor": "plain", "sources": ["conc/main.cpp", "conc/c_lin.cpp", "conc/c_scan.cpp", "conc/c_phantom.cpp", "common/allocreg.cpp"],
                   "defines": {"YAKUSHIMA_EPOCH_TIME": 1, "YAKUSHIMA_MAX_PARALLEL_SESSIONS": 64}},
    "conc-asan": {"flavor": "asan", "sources": ["conc/main.cpp", "conc/c_lin.cpp", "conc/c_scan.cpp", "conc/c_phantom.cpp", "common/allocreg.cpp"],
                  "defines": {"YAKUSHIMA_EPOCH_TIME": 1, "YAKUSHIMA_MAX_PARALLEL_SESSIONS": 64}},
}


def run(name, binary, timeout=600, repeat=1, **args):
    return {"name": name, "bin": binary, "args": args, "timeout": timeout, "repeat": repeat}


CHECKS = {
    "C02": {
        "title": "single-session behaviour equals an ordered byte-string map",
        "quick": [run("seq_map", "seq-asan", mode="map", prop="C02", programs=400, ops=300, repeat=2)],
        "thorough": [run("seq_map", "seq-asan", mode="map", prop="C02", programs=6000, ops=400, huge=2, repeat=16, timeout=3000)],
        "parallel": {"quick": 2, "thorough": 16},
    },
    "C03": {
        "title": "quiescent range scan equals the interval content",
        "quick": [run("seq_scan", "seq-asan", mode="scan", prop="C03", trees=150, scans=120, repeat=2)],
        "thorough": [run("seq_scan", "seq-asan", mode="scan", prop="C03", trees=3000, scans=200, repeat=16, timeout=3000)],
        "parallel": {"quick": 2, "thorough": 16},
    },
    "C05": {
        "title": "node-version sets detect later inserts",
        "quick": [run("seq_phantom", "seq-asan", mode="phantom", prop="C05", trees=120, reads=14, cands=10, repeat=2)],
        "thorough": [run("seq_phantom", "seq-asan", mode="phantom", prop="C05", trees=3000, reads=20, cands=14, repeat=16, timeout=3000)],
        "parallel": {"quick": 2, "thorough": 16},
    },
    "C12": {
        "title": "put reports exactly the borders whose version changed",
        "quick": [run("seq_nodeinfo", "seq-asan", mode="nodeinfo", prop="C12", programs=120, puts=120, repeat=2)],
        "thorough": [run("seq_nodeinfo", "seq-asan", mode="nodeinfo", prop="C12", programs=2500, puts=200, repeat=16, timeout=3000)],
        "parallel": {"quick": 2, "thorough": 16},
    },
    "C20": {
        "title": "mem_usage equals an independent census",
        "quick": [run("seq_memusage", "seq-asan", mode="memusage", prop="C20", trees=150, snaps=20, repeat=2)],
        "thorough": [run("seq_memusage", "seq-asan", mode="memusage", prop="C20", trees=4000, snaps=30, repeat=16, timeout=3000)],
        "parallel": {"quick": 2, "thorough": 16},
    },
    "C17": {
        "title": "node version word protocol",
        "quick": [run("seq_version", "unit-asan", mode="version", part="seq", prop="C17", random=200000),
                  run("conc_version_asan", "unit-asan", mode="version", part="conc", prop="C17", acq=60000, lockers=6, readers=3),
                  run("conc_version_plain", "unit-plain", mode="version", part="conc", prop="C17", acq=400000, lockers=8, readers=4, delays=0),
                  run("conc_version_plain_delays", "unit-plain", mode="version", part="conc", prop="C17", acq=150000, lockers=4, readers=2, delays=1)],
        "thorough": [run("seq_version", "unit-asan", mode="version", part="seq", prop="C17", random=10000000, timeout=3000),
                     run("conc_version_asan", "unit-asan", mode="version", part="conc", prop="C17", acq=2000000, lockers=8, readers=4, timeout=3000, repeat=2),
                     run("conc_version_plain", "unit-plain", mode="version", part="conc", prop="C17", acq=30000000, lockers=12, readers=4, delays=0, timeout=3000, repeat=2),
                     run("conc_version_plain_delays", "unit-plain", mode="version", part="conc", prop="C17", acq=5000000, lockers=6, readers=3, delays=1, timeout=3000, repeat=4)],
        "parallel": {"quick": 1, "thorough": 1},
    },
    "C18": {
        "title": "all comparison sites implement bytewise order",
        "quick": [run("seq_compare", "unit-asan", mode="compare", prop="C18", random=200000, sets=15000, splits=3000)],
        "thorough": [run("seq_compare", "unit-asan", mode="compare", prop="C18", random=3000000, sets=400000, splits=100000, repeat=8, timeout=3000)],
        "parallel": {"quick": 1, "thorough": 8},
    },
    "C19": {
        "title": "permutation word encodes a valid ordering; atomic publication",
        "quick": [run("seq_perm", "unit-asan", mode="perm", part="seq", prop="C19", random=1500, exhaustive_n=6),
                  run("conc_perm", "unit-plain", mode="perm", part="conc", prop="C19", ops=1000000, readers=3)],
        "thorough": [run("seq_perm", "unit-asan", mode="perm", part="seq", prop="C19", random=100000, exhaustive_n=8, timeout=3000),
                     run("conc_perm", "unit-plain", mode="perm", part="conc", prop="C19", ops=30000000, readers=4, timeout=3000, repeat=2)],
        "parallel": {"quick": 2, "thorough": 2},
    },
    "C10": {
        "title": "cursor API enumerates the interval in both directions",
        "quick": [run("seq_iscan", "seq-asan", mode="iscan", prop="C10", trees=160, cursors=60, steppers=20, repeat=2)],
        "thorough": [run("seq_iscan", "seq-asan", mode="iscan", prop="C10", trees=4000, cursors=100, steppers=40, repeat=16, timeout=3000)],
        "parallel": {"quick": 2, "thorough": 16},
    },
    "C13": {
        "title": "storages are isolated namespaces",
        "quick": [run("seq_storage", "seq-asan", mode="storage", prop="C13", programs=120, ops=300, repeat=2)],
        "thorough": [run("seq_storage", "seq-asan", mode="storage", prop="C13", programs=3000, ops=400, repeat=16, timeout=3000)],
        "parallel": {"quick": 2, "thorough": 16},
    },
    "C15": {
        "title": "values round-trip exactly; updates are atomic",
        "quick": [run("seq_value", "seq-asan", mode="value", prop="C15", chains=300)],
        "thorough": [run("seq_value", "seq-asan", mode="value", prop="C15", chains=20000, big=1, repeat=4, timeout=3000)],
        "parallel": {"quick": 2, "thorough": 4},
    },
    "C01": {
        "title": "point operations are linearizable",
        "quick": [run("conc_lin_plain", "conc-plain", mode="lin", prop="C01", rounds=1500, repeat=2),
                  run("conc_lin_asan", "conc-asan", mode="lin", prop="C01", rounds=400)],
        "thorough": [run("conc_lin_plain", "conc-plain", mode="lin", prop="C01", rounds=60000, repeat=4, timeout=3400),
                     run("conc_lin_asan", "conc-asan", mode="lin", prop="C01", rounds=8000, repeat=2, timeout=3400)],
        "parallel": {"quick": 1, "thorough": 2},
    },
}
