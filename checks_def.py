"""Definition of harness binaries and of the runs that make up each check.

Every run is bounded by case counts (rounds, programs, trees ...); `timeout`
only feeds the watchdog (a watchdog firing is *inconclusive*, exit 2, except
for runs marked hang_is_violation, where not finishing is what the property
forbids - C09).
"""

SEQ_SOURCES = ["seq/main.cpp", "seq/m_map.cpp", "seq/m_scan.cpp", "seq/m_phantom.cpp", "seq/m_iscan.cpp",
               "seq/m_nodeinfo.cpp", "seq/m_storage.cpp", "seq/m_value.cpp", "seq/m_memusage.cpp", "common/allocreg.cpp"]
CONC_SOURCES = ["conc/main.cpp", "conc/c_lin.cpp", "conc/c_scan.cpp", "conc/c_phantom.cpp", "conc/c_gc.cpp", "conc/c_struct.cpp",
                "conc/c_ddl.cpp", "conc/c_value.cpp", "conc/c_leak.cpp", "conc/c_cycle.cpp", "conc/c_nodeinfo.cpp", "conc/c_collapse.cpp", "common/allocreg.cpp"]
UNIT_SOURCES = ["unit/main.cpp", "unit/u_version.cpp", "unit/u_compare.cpp", "unit/u_perm.cpp", "common/allocreg.cpp"]
SESS_SOURCES = ["sess/main.cpp", "common/allocreg.cpp"]


def defs(epoch=1, sessions=64):
    return {"YAKUSHIMA_EPOCH_TIME": epoch, "YAKUSHIMA_MAX_PARALLEL_SESSIONS": sessions}


BINARIES = {
    # epoch period 1 ms everywhere so that reclamation is live during the workloads
    "seq-asan": {"flavor": "asan", "sources": SEQ_SOURCES, "defines": defs()},
    "seq-plain": {"flavor": "plain", "sources": SEQ_SOURCES, "defines": defs()},
    "unit-asan": {"flavor": "asan", "sources": UNIT_SOURCES, "defines": defs()},
    "unit-plain": {"flavor": "plain", "sources": UNIT_SOURCES, "defines": defs()},
    "conc-plain": {"flavor": "plain", "sources": CONC_SOURCES, "defines": defs()},
    "conc-asan": {"flavor": "asan", "sources": CONC_SOURCES, "defines": defs()},
    "conc-plain-e5": {"flavor": "plain", "sources": CONC_SOURCES, "defines": defs(epoch=5)},
    "conc-plain-e40": {"flavor": "plain", "sources": CONC_SOURCES, "defines": defs(epoch=40)},
    "sess1-plain": {"flavor": "plain", "sources": SESS_SOURCES, "defines": defs(sessions=1)},
    "sess2-plain": {"flavor": "plain", "sources": SESS_SOURCES, "defines": defs(sessions=2)},
    "sess4-plain": {"flavor": "plain", "sources": SESS_SOURCES, "defines": defs(sessions=4)},
    "sess64-plain": {"flavor": "plain", "sources": SESS_SOURCES, "defines": defs(sessions=64)},
}


def run(name, binary, timeout=600, repeat=1, leaks=False, hang_is_violation=False, wrapper=None, **args):
    return {"name": name, "bin": binary, "args": args, "timeout": timeout, "repeat": repeat, "leaks": leaks,
            "hang_is_violation": hang_is_violation, "wrapper": wrapper}


CHECKS = {
    "C01": {
        "title": "point operations are linearizable",
        "quick": [run("conc_lin_plain", "conc-plain", mode="lin", prop="C01", rounds=6000, repeat=2),
                  run("conc_lin_asan", "conc-asan", mode="lin", prop="C01", rounds=1200),
                  run("conc_lin_micro", "conc-plain", mode="lin_micro", prop="C01", races=500000, repeat=2),
                  run("conc_lin_micro_asan", "conc-asan", mode="lin_micro", prop="C01", races=60000)],
        "thorough": [run("conc_lin_plain", "conc-plain", mode="lin", prop="C01", rounds=400000, repeat=6, timeout=3400),
                     run("conc_lin_asan", "conc-asan", mode="lin", prop="C01", rounds=60000, repeat=2, timeout=3400),
                     run("conc_lin_micro", "conc-plain", mode="lin_micro", prop="C01", races=40000000, repeat=6, timeout=3400),
                     run("conc_lin_micro_asan", "conc-asan", mode="lin_micro", prop="C01", races=4000000, repeat=2, timeout=3400)],
        "parallel": {"quick": 1, "thorough": 2},
    },
    "C02": {
        "title": "single-session behaviour equals an ordered byte-string map",
        "quick": [run("seq_map", "seq-asan", mode="map", prop="C02", programs=1500, ops=300, repeat=4)],
        "thorough": [run("seq_map_memcheck", "seq-plain", mode="map", prop="C02", programs=400, ops=250, wrapper="memcheck", repeat=4, timeout=3400),
                     run("seq_map", "seq-asan", mode="map", prop="C02", programs=60000, ops=400, huge=2, repeat=16, timeout=3400)],
        "parallel": {"quick": 4, "thorough": 16},
    },
    "C03": {
        "title": "quiescent range scan equals the interval content",
        "quick": [run("seq_scan", "seq-asan", mode="scan", prop="C03", trees=600, scans=150, repeat=4)],
        "thorough": [run("seq_scan_memcheck", "seq-plain", mode="scan", prop="C03", trees=150, scans=80, wrapper="memcheck", repeat=4, timeout=3400),
                     run("seq_scan", "seq-asan", mode="scan", prop="C03", trees=40000, scans=200, repeat=16, timeout=3400)],
        "parallel": {"quick": 4, "thorough": 16},
    },
    "C04": {
        "title": "concurrent scans are per-key consistent and never lose a stable key",
        "quick": [run("conc_scan_plain", "conc-plain", mode="scan", cursor=0, prop="C04", rounds=2500, repeat=2),
                  run("conc_scan_asan", "conc-asan", mode="scan", cursor=0, prop="C04", rounds=400),
                  run("conc_scan_micro", "conc-plain", mode="phantom_micro", cursor=0, prop="C04", races=300000)],
        "thorough": [run("conc_scan_plain", "conc-plain", mode="scan", cursor=0, prop="C04", rounds=150000, repeat=6, timeout=3400),
                     run("conc_scan_asan", "conc-asan", mode="scan", cursor=0, prop="C04", rounds=15000, repeat=2, timeout=3400),
                     run("conc_scan_micro", "conc-plain", mode="phantom_micro", cursor=0, prop="C04", races=30000000, repeat=4, timeout=3400)],
        "parallel": {"quick": 1, "thorough": 2},
    },
    "C05": {
        "title": "node-version sets detect later inserts",
        "quick": [run("seq_phantom", "seq-asan", mode="phantom", prop="C05", trees=600, reads=14, cands=10, repeat=4),
                  run("conc_postinsert_scan", "conc-plain", mode="phantom_micro", cursor=0, oracle="post", prop="C05", races=300000, repeat=2),
                  run("conc_postinsert_iscan", "conc-plain", mode="phantom_micro", cursor=1, oracle="post", prop="C05", races=150000)],
        "thorough": [run("seq_phantom_memcheck", "seq-plain", mode="phantom", prop="C05", trees=150, reads=10, cands=8, wrapper="memcheck", repeat=4, timeout=3400),
                     run("seq_phantom", "seq-asan", mode="phantom", prop="C05", trees=30000, reads=20, cands=14, repeat=16, timeout=3400),
                     run("conc_postinsert_scan", "conc-plain", mode="phantom_micro", cursor=0, oracle="post", prop="C05", races=30000000, repeat=4, timeout=3400),
                     run("conc_postinsert_iscan", "conc-plain", mode="phantom_micro", cursor=1, oracle="post", prop="C05", races=10000000, repeat=2, timeout=3400)],
        "parallel": {"quick": 4, "thorough": 16},
    },
    "C06": {
        "title": "a concurrent insert is seen by the scan or invalidates its version set",
        "quick": [run("conc_phantom_scan", "conc-plain", mode="phantom", cursor=0, prop="C06", rounds=4000, repeat=2),
                  run("conc_phantom_scan_asan", "conc-asan", mode="phantom", cursor=0, prop="C06", rounds=600),
                  run("conc_phantom_micro_scan", "conc-plain", mode="phantom_micro", cursor=0, prop="C06", races=300000, repeat=2)],
        "thorough": [run("conc_phantom_scan", "conc-plain", mode="phantom", cursor=0, prop="C06", rounds=300000, repeat=6, timeout=3400),
                     run("conc_phantom_scan_asan", "conc-asan", mode="phantom", cursor=0, prop="C06", rounds=30000, repeat=2, timeout=3400),
                     run("conc_phantom_micro_scan", "conc-plain", mode="phantom_micro", cursor=0, prop="C06", races=40000000, repeat=6, timeout=3400),
                     run("conc_phantom_micro_scan_asan", "conc-asan", mode="phantom_micro", cursor=0, prop="C06", races=3000000, repeat=2, timeout=3400)],
        "parallel": {"quick": 1, "thorough": 2},
    },
    "C07": {
        "title": "memory handed out inside a session stays valid until leave",
        "quick": [run("conc_gc_plain", "conc-plain", mode="gc", prop="C07", sessions=3000, min_reclaims=3000, repeat=2),
                  run("conc_gc_asan", "conc-asan", mode="gc", prop="C07", sessions=600, min_reclaims=600),
                  run("conc_collapse_micro_asan", "conc-asan", mode="collapse_micro", prop="C07", rounds=25000, walk_every=0)],
        "thorough": [run("conc_gc_plain", "conc-plain", mode="gc", prop="C07", sessions=200000, min_reclaims=400000, repeat=3, timeout=3400),
                     run("conc_gc_e5", "conc-plain-e5", mode="gc", prop="C07", sessions=60000, min_reclaims=100000, stall_us=100000, timeout=3400),
                     run("conc_gc_e40", "conc-plain-e40", mode="gc", prop="C07", sessions=20000, min_reclaims=20000, stall_us=400000, timeout=3400),
                     run("conc_gc_asan", "conc-asan", mode="gc", prop="C07", sessions=40000, min_reclaims=60000, timeout=3400, repeat=2),
                     run("conc_collapse_micro_asan", "conc-asan", mode="collapse_micro", prop="C07", rounds=1500000, walk_every=0, timeout=3400, repeat=2)],
        "parallel": {"quick": 1, "thorough": 2},
    },
    "C08": {
        "title": "tree coherence at quiescent points",
        "quick": [run("conc_struct_plain", "conc-plain", mode="struct", prop="C08", batches=250, repeat=2),
                  run("conc_struct_asan", "conc-asan", mode="struct", prop="C08", batches=40),
                  run("seq_map", "seq-asan", mode="map", prop="C08", programs=600, ops=300),
                  run("conc_collapse_micro", "conc-plain", mode="collapse_micro", prop="C08", rounds=100000, repeat=2)],
        "thorough": [run("conc_struct_plain", "conc-plain", mode="struct", prop="C08", batches=20000, repeat=6, timeout=3400),
                     run("conc_struct_asan", "conc-asan", mode="struct", prop="C08", batches=2500, repeat=2, timeout=3400),
                     run("seq_map", "seq-asan", mode="map", prop="C08", programs=20000, ops=400, repeat=8, timeout=3400),
                     run("conc_collapse_micro", "conc-plain", mode="collapse_micro", prop="C08", rounds=8000000, repeat=4, timeout=3400)],
        "parallel": {"quick": 1, "thorough": 2},
    },
    "C09": {
        "title": "operations complete: no deadlock, no lock left held",
        "quick": [run("conc_struct_progress", "conc-plain", mode="struct", prop="C09", batches=300, stall_s=20, hang_is_violation=True, timeout=300, repeat=2),
                  run("conc_lin_progress", "conc-plain", mode="lin", prop="C09", rounds=3000, hang_is_violation=True, timeout=240),
                  run("conc_collapse_micro", "conc-plain", mode="collapse_micro", prop="C09", rounds=150000, walk_every=0, stall_s=20, hang_is_violation=True, timeout=300, repeat=2)],
        "thorough": [run("conc_struct_progress", "conc-plain", mode="struct", prop="C09", batches=25000, stall_s=60, hang_is_violation=True, timeout=3400, repeat=6),
                     run("conc_lin_progress", "conc-plain", mode="lin", prop="C09", rounds=300000, hang_is_violation=True, timeout=3400, repeat=2),
                     run("conc_collapse_micro", "conc-plain", mode="collapse_micro", prop="C09", rounds=15000000, walk_every=0, stall_s=60, hang_is_violation=True, timeout=3400, repeat=4)],
        "parallel": {"quick": 1, "thorough": 2},
    },
    "C10": {
        "title": "cursor API enumerates the interval in both directions",
        "quick": [run("seq_iscan", "seq-asan", mode="iscan", prop="C10", trees=500, cursors=60, steppers=20, bursts=12, repeat=3),
                  run("conc_iscan_single_layer", "conc-plain", mode="scan", cursor=1, scenario="flat", prop="C10", rounds=1200),
                  run("conc_iscan_layers", "conc-plain", mode="scan", cursor=1, scenario="layers", prop="C10", rounds=600),
                  run("conc_iscan_asan", "conc-asan", mode="scan", cursor=1, scenario="flat", prop="C10", rounds=150),
                  run("conc_phantom_iscan", "conc-plain", mode="phantom", cursor=1, prop="C10", rounds=1500),
                  run("conc_phantom_micro_iscan", "conc-plain", mode="phantom_micro", cursor=1, prop="C10", races=120000)],
        "thorough": [run("seq_iscan_memcheck", "seq-plain", mode="iscan", prop="C10", trees=150, cursors=40, steppers=10, wrapper="memcheck", repeat=4, timeout=3400),
                     run("seq_iscan", "seq-asan", mode="iscan", prop="C10", trees=30000, cursors=100, steppers=40, repeat=12, timeout=3400),
                     run("conc_iscan_single_layer", "conc-plain", mode="scan", cursor=1, scenario="flat", prop="C10", rounds=40000, repeat=4, timeout=3400),
                     run("conc_iscan_layers", "conc-plain", mode="scan", cursor=1, scenario="layers", prop="C10", rounds=20000, repeat=2, timeout=3400),
                     run("conc_iscan_asan", "conc-asan", mode="scan", cursor=1, scenario="flat", prop="C10", rounds=6000, repeat=2, timeout=3400),
                     run("conc_phantom_iscan", "conc-plain", mode="phantom", cursor=1, prop="C10", rounds=150000, repeat=2, timeout=3400),
                     run("conc_phantom_micro_iscan", "conc-plain", mode="phantom_micro", cursor=1, prop="C10", races=8000000, repeat=4, timeout=3400)],
        "parallel": {"quick": 1, "thorough": 2},
    },
    "C11": {
        "title": "everything allocated is released by fin()",
        "quick": [run("conc_leak_asan", "conc-asan", mode="leak", prop="C11", cycles=4, leaks=True, repeat=12),
                  run("conc_leak_plain", "conc-plain", mode="leak", prop="C11", cycles=8, repeat=12)],
        "thorough": [run("conc_leak_asan", "conc-asan", mode="leak", prop="C11", cycles=6, leaks=True, repeat=200, timeout=3400),
                     run("conc_leak_plain", "conc-plain", mode="leak", prop="C11", cycles=20, repeat=200, timeout=3400)],
        "parallel": {"quick": 4, "thorough": 4},
    },
    "C12": {
        "title": "put reports exactly the borders whose version changed",
        "quick": [run("seq_nodeinfo", "seq-asan", mode="nodeinfo", prop="C12", programs=250, puts=150, repeat=4),
                  run("conc_nodeinfo", "conc-plain", mode="nodeinfo_conc", prop="C12", rounds=6000, repeat=2),
                  run("conc_nodeinfo_asan", "conc-asan", mode="nodeinfo_conc", prop="C12", rounds=1000)],
        "thorough": [run("seq_nodeinfo_memcheck", "seq-plain", mode="nodeinfo", prop="C12", programs=60, puts=100, wrapper="memcheck", repeat=4, timeout=3400),
                     run("seq_nodeinfo", "seq-asan", mode="nodeinfo", prop="C12", programs=12000, puts=200, repeat=16, timeout=3400),
                     run("conc_nodeinfo", "conc-plain", mode="nodeinfo_conc", prop="C12", rounds=150000, repeat=8, timeout=3400),
                     run("conc_nodeinfo_asan", "conc-asan", mode="nodeinfo_conc", prop="C12", rounds=30000, repeat=4, timeout=3400)],
        "parallel": {"quick": 4, "thorough": 16},
    },
    "C13": {
        "title": "storages are isolated namespaces",
        "quick": [run("seq_storage", "seq-asan", mode="storage", prop="C13", programs=400, ops=300, repeat=2),
                  run("conc_ddl_plain", "conc-plain", mode="ddl", prop="C13", races=2500),
                  run("conc_ddl_asan", "conc-asan", mode="ddl", prop="C13", races=400)],
        "thorough": [run("seq_storage_memcheck", "seq-plain", mode="storage", prop="C13", programs=100, ops=200, wrapper="memcheck", repeat=2, timeout=3400),
                     run("seq_storage", "seq-asan", mode="storage", prop="C13", programs=20000, ops=400, repeat=12, timeout=3400),
                     run("conc_ddl_plain", "conc-plain", mode="ddl", prop="C13", races=250000, repeat=3, timeout=3400),
                     run("conc_ddl_asan", "conc-asan", mode="ddl", prop="C13", races=30000, timeout=3400)],
        "parallel": {"quick": 2, "thorough": 4},
    },
    "C14": {
        "title": "sessions are exclusive slots",
        "quick": [run("sess_cap1", "sess1-plain", pairs=60000, prop="C14"), run("sess_cap2", "sess2-plain", pairs=60000, prop="C14"),
                  run("sess_cap4", "sess4-plain", pairs=60000, prop="C14"), run("sess_cap64", "sess64-plain", pairs=60000, prop="C14")],
        "thorough": [run("sess_cap1", "sess1-plain", pairs=4000000, prop="C14", timeout=3400, repeat=2), run("sess_cap2", "sess2-plain", pairs=4000000, prop="C14", timeout=3400, repeat=2),
                     run("sess_cap4", "sess4-plain", pairs=4000000, prop="C14", timeout=3400, repeat=2), run("sess_cap64", "sess64-plain", pairs=4000000, prop="C14", timeout=3400, repeat=2)],
        "parallel": {"quick": 1, "thorough": 1},
    },
    "C15": {
        "title": "values round-trip exactly; updates are atomic",
        "quick": [run("seq_value", "seq-asan", mode="value", prop="C15", chains=400),
                  run("conc_value_plain", "conc-plain", mode="value", prop="C15", reads=400000),
                  run("conc_value_asan", "conc-asan", mode="value", prop="C15", reads=60000)],
        "thorough": [run("seq_value_memcheck", "seq-plain", mode="value", prop="C15", chains=300, wrapper="memcheck", timeout=3400),
                     run("seq_value", "seq-asan", mode="value", prop="C15", chains=30000, big=1, repeat=4, timeout=3400),
                     run("conc_value_plain", "conc-plain", mode="value", prop="C15", reads=50000000, repeat=2, timeout=3400),
                     run("conc_value_asan", "conc-asan", mode="value", prop="C15", reads=4000000, timeout=3400)],
        "parallel": {"quick": 1, "thorough": 2},
    },
    "C16": {
        "title": "init/fin cycles are repeatable",
        "quick": [run("seq_cycle", "conc-asan", mode="cycle", prop="C16", cycles=6, repeat=12),
                  run("seq_cycle_plain", "conc-plain", mode="cycle", prop="C16", cycles=10, repeat=6)],
        "thorough": [run("seq_cycle", "conc-asan", mode="cycle", prop="C16", cycles=12, repeat=150, timeout=3400),
                     run("seq_cycle_e5", "conc-plain-e5", mode="cycle", prop="C16", cycles=8, repeat=20, timeout=3400),
                     run("seq_cycle_e40", "conc-plain-e40", mode="cycle", prop="C16", cycles=4, cap_periods=150, repeat=6, timeout=3400)],
        "parallel": {"quick": 3, "thorough": 4},
    },
    "C17": {
        "title": "node version word protocol",
        "quick": [run("seq_version", "unit-asan", mode="version", part="seq", prop="C17", random=300000),
                  run("conc_version_asan", "unit-asan", mode="version", part="conc", prop="C17", acq=60000, lockers=6, readers=3),
                  run("conc_version_plain", "unit-plain", mode="version", part="conc", prop="C17", acq=400000, lockers=8, readers=4, delays=0),
                  run("conc_version_plain_delays", "unit-plain", mode="version", part="conc", prop="C17", acq=150000, lockers=4, readers=2, delays=1)],
        "thorough": [run("seq_version", "unit-asan", mode="version", part="seq", prop="C17", random=20000000, timeout=3400),
                     run("conc_version_asan", "unit-asan", mode="version", part="conc", prop="C17", acq=2000000, lockers=8, readers=4, timeout=3400, repeat=2),
                     run("conc_version_plain", "unit-plain", mode="version", part="conc", prop="C17", acq=30000000, lockers=12, readers=4, delays=0, timeout=3400, repeat=2),
                     run("conc_version_plain_delays", "unit-plain", mode="version", part="conc", prop="C17", acq=5000000, lockers=6, readers=3, delays=1, timeout=3400, repeat=4)],
        "parallel": {"quick": 1, "thorough": 1},
    },
    "C18": {
        "title": "all comparison sites implement bytewise order",
        "quick": [run("seq_compare", "unit-asan", mode="compare", prop="C18", random=300000, sets=20000, splits=4000)],
        "thorough": [run("seq_compare", "unit-asan", mode="compare", prop="C18", random=3000000, sets=400000, splits=100000, repeat=8, timeout=3400)],
        "parallel": {"quick": 1, "thorough": 8},
    },
    "C19": {
        "title": "permutation word encodes a valid ordering; atomic publication",
        "quick": [run("seq_perm", "unit-asan", mode="perm", part="seq", prop="C19", random=1500, exhaustive_n=6),
                  run("conc_perm", "unit-plain", mode="perm", part="conc", prop="C19", ops=1500000, readers=3)],
        "thorough": [run("seq_perm", "unit-asan", mode="perm", part="seq", prop="C19", random=100000, exhaustive_n=8, timeout=3400),
                     run("conc_perm", "unit-plain", mode="perm", part="conc", prop="C19", ops=40000000, readers=4, timeout=3400, repeat=2)],
        "parallel": {"quick": 2, "thorough": 2},
    },
    "C20": {
        "title": "mem_usage equals an independent census",
        "quick": [run("seq_memusage", "seq-asan", mode="memusage", prop="C20", trees=500, snaps=25, repeat=4)],
        "thorough": [run("seq_memusage_memcheck", "seq-plain", mode="memusage", prop="C20", trees=120, snaps=15, wrapper="memcheck", repeat=4, timeout=3400),
                     run("seq_memusage", "seq-asan", mode="memusage", prop="C20", trees=40000, snaps=30, repeat=16, timeout=3400)],
        "parallel": {"quick": 4, "thorough": 16},
    },
}
