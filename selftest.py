#!/usr/bin/env python3
"""Self-test of the checks against breaking changes.

  ./selftest.py mutants [name ...]      built-in one-edit mutants (below)
  ./selftest.py seeded  [id ...]        changes kept under /verif/seeded/<id>/patch.diff

For each change: copy /repo/include to a scratch directory outside /repo and
/verif, apply the change, run the expected check(s) with VERIF_REPO pointing
at the copy (separate build / evidence / replay directories, all removed
afterwards), and report whether the check exited 1. Results go to
selftest_results.json. Negative controls must stay silent (exit 0).
"""
import json
import os
import shutil
import subprocess
import sys
import tempfile
import time

VERIF = os.path.dirname(os.path.abspath(__file__))
REPO = "/repo"

# (name, property checks expected to fire, file, old, new, note)   kind: 'break' or 'control'
MUTANTS = [
    ("c01-remove-no-recheck-after-lock", ["C09"], "interface_remove.h",
     """        lv_ptr = target_border->get_lv_of_without_lock(key_slice, key_length);
        if (lv_ptr == nullptr) {
            target_border->version_unlock();
            return status::OK_NOT_FOUND;
        }
""", "", "break"),
    ("c01-get-no-vinsert-recheck", ["C01"], "interface_get.h",
     """        if (final_check.get_vinsert_delete() !=
            v_at_fetch_lv.get_vinsert_delete()) {
            goto retry_fetch_lv; // NOLINT
        }
        if (lv_cleared) {""", """        if (lv_cleared) {""", "break"),
    ("c01-get-no-cleared-retry", ["C01"], "interface_get.h",
     """        if (lv_cleared) {
            // the entry is being removed concurrently (remove is not tracked by version).
            goto retry_fetch_lv; // NOLINT
        }
""", "", "break"),
    ("c01-put-overwrite-no-recheck", ["C01", "C15"], "interface_put.h",
     """            lv_ptr = target_border->get_lv_of_without_lock(key_slice, key_slice_length);
            if (lv_ptr == nullptr) {
                target_border->version_unlock();
                goto retry_fetch_lv; // NOLINT
            }
""", "", "break"),
    ("c02-rank-ignores-length", ["C02", "C18"], "border_node.h",
     "                if (key_length < target_key_len) { return i; }\n            } else if (ret < 0) {\n                return i;\n                break;",
     "            } else if (ret < 0) {\n                return i;\n                break;", "break"),
    ("c03-left-endpoint-exclusive-as-inclusive", ["C03"], "scan_helper.h",
     """                                    (l_key.size() == kl &&
                                     l_end == scan_endpoint::EXCLUSIVE)))) {""",
     """                                    (l_key.size() == kl &&
                                     l_end == scan_endpoint::EXCLUSIVE && kl > 64)))) {""", "break"),
    ("c03-accept-empty-point-range", ["C03", "C10"], "interface_scan.h",
     """    return (l_end == scan_endpoint::INCLUSIVE && r_end == scan_endpoint::INCLUSIVE)
            ? status::OK // single point, not empty
            : status::ERR_BAD_USAGE; // empty""", """    return status::OK;""", "break"),
    ("c04-scan-skip-final-check", ["C04", "C06"], "scan_helper.h",
     """    YAKUSHIMA_VERIF_POINT(SCAN_BEFORE_FINAL, bn);
    status check_status = scan_check_retry(bn, v_at_fb);""",
     """    YAKUSHIMA_VERIF_POINT(SCAN_BEFORE_FINAL, bn);
    status check_status = status::OK;""", "break"),
    ("c04-scan-no-cleared-retry", ["C04"], "scan_helper.h",
     """            if (lv_cleared) {
                // the entry is being removed concurrently (remove is not tracked by version).
                clean_up_tuple_list_nvc();
                goto retry; // NOLINT
            }
""", "", "break"),
    ("c05-no-log-of-empty-border", ["C05"], "scan_helper.h",
     """    if (!tuple_pushed_num && node_version_vec != nullptr) {
        /**
         * Since it is a leftmost node included in the range, it is included
         * in the phantom verification. However, there were no elements
         * included in the range.
         */
        node_version_vec->emplace_back(
                std::make_pair(v_at_fb, bn->get_version_ptr()));
    }
""", "", "break"),
    ("c05-insert-does-not-dirty-version", ["C05", "C06", "C12"], "border_helper.h",
     "    border->set_version_inserting_deleting(true);\n    std::size_t cnk = border->get_permutation_cnk();",
     "    std::size_t cnk = border->get_permutation_cnk();", "break"),
    ("c07-gc-epoch-no-minus-one", ["C07"], "manager_thread.h",
     "garbage_collection::set_gc_epoch(min_epoch - 1);", "garbage_collection::set_gc_epoch(min_epoch + 1);", "break"),
    ("c07-enter-no-recheck", ["C07"], "thread_info_table.h",
     "                    if (cur_epoch == epoch_management::get_epoch()) { break; }", "                    break;", "break"),
    ("c07-overwrite-deletes-old-value-directly", ["C07"], "interface_put.h",
     """                    thin->get_gc_info().push_value_container(
                            {thin->get_begin_epoch(), o_ptr, o_len, o_align});""",
     """                    ::operator delete(o_ptr, o_len, o_align);""", "break"),
    ("c08-split-forgets-next-prev", ["C08"], "border_helper.h",
     "        new_border->get_next()->set_prev(new_border);", "        ;", "break"),
    ("c08-interior-delete-middle-wrong-shift", ["C08", "C02"], "interior_helper.h",
     "                    shift_left_children(i + 1, 1);\n                    set_child_at(n_key, nullptr);\n                }\n                set_key(n_key - 1, 0, 0);",
     "                    shift_left_children(i, 1);\n                    set_child_at(n_key, nullptr);\n                }\n                set_key(n_key - 1, 0, 0);", "break"),
    ("c09-put-retry-without-unlock", ["C09"], "interface_put.h",
     """            target_border->version_unlock();
            goto retry_fetch_lv; // NOLINT
        }
        value* v = value::create_value<kIsInline>(v_ptr, v_len, v_align);
        insert_lv(""",
     """            goto retry_fetch_lv; // NOLINT
        }
        value* v = value::create_value<kIsInline>(v_ptr, v_len, v_align);
        insert_lv(""", "break"),
    ("c10-cursor-start-side-le", ["C10"], "interface_iscan.h",
     "            hit = (last_key < kt);", "            hit = (last_key <= kt);", "break"),
    ("c10-cursor-no-perm-compare", ["C09", "C10"], "interface_iscan.h",
     "    if (check_v != v_at_fb || check_perm_b != perm.get_body()) {", "    if (check_v != v_at_fb) {", "break"),
    ("c11-root-race-loser-leaks-border", ["C11"], "interface_put.h",
     "                new_border->destroy();\n                delete new_border; // NOLINT\n                break;",
     "                new_border->destroy();\n                break;", "break"),
    ("c11-fin-skips-cache-slot", ["C11"], "garbage_collection.h",
     """        // for cache
        if (std::get<gc_target_index>(cache_value_container_) != nullptr) {
            YAKUSHIMA_VERIF_POINT(RECLAIM_VALUE, std::get<gc_target_index>(cache_value_container_));
            ::operator delete(
                    std::get<gc_target_index>(cache_value_container_),
                    std::get<gc_target_size_index>(cache_value_container_),
                    std::get<gc_target_align_index>(cache_value_container_));
            std::get<gc_target_index>(cache_value_container_) = nullptr;
        }

        while (!value_container_.empty()) {
            std::tuple<Epoch, void*, std::size_t, std::align_val_t> elem;
            if (!value_container_.try_pop(elem)) { continue; }
            YAKUSHIMA_VERIF_POINT(RECLAIM_VALUE, std::get<gc_target_index>(elem));
            ::operator delete(std::get<gc_target_index>(elem),
                              std::get<gc_target_size_index>(elem),
                              std::get<gc_target_align_index>(elem));
        }
    }

    void gc() {""",
     """        while (!value_container_.empty()) {
            std::tuple<Epoch, void*, std::size_t, std::align_val_t> elem;
            if (!value_container_.try_pop(elem)) { continue; }
            YAKUSHIMA_VERIF_POINT(RECLAIM_VALUE, std::get<gc_target_index>(elem));
            ::operator delete(std::get<gc_target_index>(elem),
                              std::get<gc_target_size_index>(elem),
                              std::get<gc_target_align_index>(elem));
        }
    }

    void gc() {""", "break"),
    ("c12-modified-is-new-sibling", ["C12"], "border_helper.h",
     "        inserted_node_info_ptr->modified_nvp = border->get_version_ptr();\n        inserted_node_info_ptr->created_nvp = new_border->get_version_ptr();",
     "        inserted_node_info_ptr->modified_nvp = new_border->get_version_ptr();\n        inserted_node_info_ptr->created_nvp = new_border->get_version_ptr();", "break"),
    ("c13-create-storage-not-unique", ["C13"], "storage_impl.h",
     "put(token, get_storages(), storage_name, &new_instance, true)", "put(token, get_storages(), storage_name, &new_instance, false)", "break"),
    ("c14-gain-the-right-load-then-store", ["C14"], "thread_info.h",
     """            if (running_.compare_exchange_weak(expected, true,
                                               std::memory_order_acq_rel,
                                               std::memory_order_acquire)) {
                return true;
            }""", """            running_.store(true, std::memory_order_release);
            return true;""", "break"),
    ("c15-value-alignment-floor-removed", ["C15"], "value.h",
     "            if (v_align < kMinAlignment) { v_align = kMinAlignment; } // NOLINT(*-min-max)", "", "break"),
    ("c16-stop-flags-not-lowered", ["C16"], "manager_thread.h",
     "        kGCThreadEnd.store(false, std::memory_order_release);\n", "", "break"),
    ("c17-unlock-bumps-vsplit-on-insert", ["C17"], "version.h",
     """            if (desired.get_inserting_deleting()) {
                desired.inc_vinsert_delete();
                desired.set_inserting_deleting(false);
            }""", """            if (desired.get_inserting_deleting()) {
                desired.inc_vsplit();
                desired.set_inserting_deleting(false);
            }""", "break"),
    ("c17-stable-version-ignores-lock", ["C17"], "version.h",
     "            if (!sv.get_inserting_deleting() && !sv.get_locked() &&\n                !sv.get_splitting()) {",
     "            if (!sv.get_inserting_deleting() &&\n                !sv.get_splitting()) {", "break"),
    ("c19-two-publications", ["C19"], "permutation.h",
     """        final &= ~cnk_mask;
        final |= cnk;
        set_body(final);
    }

    /**
     * @brief for split""", """        final &= ~cnk_mask;
        set_body(final);
        final |= cnk;
        set_body(final);
    }

    /**
     * @brief for split""", "break"),
    ("c20-link-level-not-incremented", ["C20"], "link_or_value.h",
     "            child->mem_usage(level + 1, mem_stat);", "            child->mem_usage(level, mem_stat);", "break"),
    # ---- negative controls: behaviour-preserving edits must stay silent
    # (the next two were written as breaking edits; the first full run left every check silent and a closer look
    #  showed them to be equivalent: with equal slices and rank == remaining_size the key is smaller than the pivot,
    #  which the earlier clauses already decide; a later version read of the next border is still taken before its
    #  content is read, so nothing read can be newer than the recorded version)
    # (likewise equivalent: memcmp over 0 bytes is 0 and the length comparison then gives the same answer as the
    #  dropped special case; ranks >= count of the permutation word are not part of the encoded ordering)
    ("ctl-key-tuple-empty-key-case-dropped", ["C18"], "base_node.h",
     "            if (r.key_length_ == 0) { return false; }\n            if (key_length_ == 0) { return true; }\n", "", "control"),
    ("ctl-delete-rank-last-rank-case-dropped", ["C19"], "permutation.h",
     "        if (rank == cnk - 1 || rank == key_slice_length - 1) {", "        if (rank == key_slice_length - 1) {", "control"),
    ("ctl-split-side-le-equivalent", ["C02", "C18"], "border_helper.h",
     "(ret_memcmp == 0 && rank < remaining_size)", "(ret_memcmp == 0 && rank <= remaining_size)", "control"),
    ("ctl-next-version-read-after-final-check", ["C06", "C04"], "scan_helper.h",
     """    // it is in scan range and fin scaning this border node.
    *target = next;
    v_at_fb = next_version;""",
     """    // it is in scan range and fin scaning this border node.
    *target = next;
    v_at_fb = next->get_stable_version();""", "control"),
    ("ctl-extra-stable-version-read-in-get", ["C01", "C02"], "interface_get.h",
     "    if (lv_ptr == nullptr) {\n        if (checked_version != nullptr) {",
     "    (void) target_border->get_stable_version();\n    if (lv_ptr == nullptr) {\n        if (checked_version != nullptr) {", "control"),
    ("ctl-session-probe-order-reversed", ["C14"], "thread_info_table.h",
     "        for (auto&& elem : thread_info_table_) {\n            if (elem.gain_the_right()) {",
     "        for (auto it = thread_info_table_.rbegin(); it != thread_info_table_.rend(); ++it) {\n            auto& elem = *it;\n            if (elem.gain_the_right()) {", "control"),
]


def run_change(name, checks, apply_fn, expect_fire):
    scratch = tempfile.mkdtemp(prefix="vsel_", dir="/tmp")
    try:
        shutil.copytree(os.path.join(REPO, "include"), os.path.join(scratch, "include"))
        ok, msg = apply_fn(scratch)
        if not ok:
            return {"name": name, "status": "not-applicable", "detail": msg}
        env = dict(os.environ)
        env["VERIF_REPO"] = scratch
        env["VERIF_BUILD"] = os.path.join(scratch, "build")
        env["VERIF_EVIDENCE_DIR"] = os.path.join(scratch, "evidence")
        env["VERIF_REPLAY_DIR"] = os.path.join(scratch, "replays")
        res = {"name": name, "checks": {}}
        fired_any = False
        for c in checks:
            t0 = time.time()
            p = subprocess.run([os.path.join(VERIF, "vcheck"), c, "--tier", os.environ.get("SELFTEST_TIER", "quick")], env=env,
                               stdout=subprocess.PIPE, stderr=subprocess.STDOUT, text=True)
            keys = [l.strip() for l in p.stdout.splitlines() if l.strip().startswith("key=")]
            res["checks"][c] = {"exit": p.returncode, "wall_s": round(time.time() - t0, 1), "keys": keys[:4],
                                "tail": p.stdout.strip().splitlines()[-1][:300] if p.stdout.strip() else ""}
            if p.returncode == 1:
                fired_any = True
                if expect_fire:
                    break
        res["fired"] = fired_any
        res["status"] = ("caught" if fired_any else "MISSED") if expect_fire else ("FALSE-ALARM" if fired_any else "silent")
        return res
    finally:
        shutil.rmtree(scratch, ignore_errors=True)


def main():
    mode = sys.argv[1] if len(sys.argv) > 1 else "mutants"
    names = sys.argv[2:]
    results = []
    if mode == "mutants":
        for name, checks, fn, old, new, kind in MUTANTS:
            if names and name not in names:
                continue

            def apply_fn(scratch, fn=fn, old=old, new=new):
                path = os.path.join(scratch, "include", fn)
                s = open(path).read()
                if s.count(old) != 1:
                    return False, "pattern occurs %d times in %s" % (s.count(old), fn)
                open(path, "w").write(s.replace(old, new))
                return True, ""
            r = run_change(name, checks, apply_fn, kind == "break")
            print(json.dumps(r))
            sys.stdout.flush()
            results.append(r)
    else:
        sdir = os.path.join(VERIF, "seeded")
        for sid in sorted(os.listdir(sdir)):
            if names and sid not in names:
                continue
            meta = json.load(open(os.path.join(sdir, sid, "meta.json")))
            patch = os.path.join(sdir, sid, "patch.diff")

            def apply_fn(scratch, patch=patch):
                p = subprocess.run(["patch", "-p1", "-d", scratch, "-i", patch], stdout=subprocess.PIPE, stderr=subprocess.STDOUT, text=True)
                return p.returncode == 0, p.stdout[-400:]
            r = run_change(sid, meta.get("checks_expected", [meta["property"]]), apply_fn, True)
            print(json.dumps(r))
            sys.stdout.flush()
            results.append(r)
    out = os.path.join(VERIF, "selftest_results_%s.json" % mode)
    old = {}
    if os.path.exists(out):
        try:
            old = {r["name"]: r for r in json.load(open(out))}
        except Exception:  # noqa: BLE001
            old = {}
    for r in results:
        old[r["name"]] = r
    json.dump(list(old.values()), open(out, "w"), indent=1)
    bad = [r["name"] for r in results if r["status"] in ("MISSED", "FALSE-ALARM", "not-applicable")]
    print("selftest: %d changes, %d need attention: %s" % (len(results), len(bad), bad))
    return 0 if not bad else 1


if __name__ == "__main__":
    sys.exit(main())
