#!/usr/bin/env python3
"""Writes MANIFEST.json from checks_def.py (so that the two cannot drift)."""
import json
import os
import subprocess

import checks_def

HERE = os.path.dirname(os.path.abspath(__file__))

LEVEL = {
    "C01": ("per-key Wing-Gong-Lowe linearizability check of recorded round histories + value self-validation; two-thread micro-races; preemption explorer (get preempted at every shared access by write bursts; put/remove preempted in their lock-free part, sequential-equivalence oracle)",
            "Held on the recorded histories: thousands of short rounds (2..16 threads on 1..6 hot keys, five tree-shape scenarios) stamped at the client boundary; every key's sub-history has a linearisation; "
            "no null/torn/foreign value. Says nothing about interleavings never produced.", "5/C01"),
    "C02": ("differential testing against std::map after every call + ASan/UBSan",
            "Every status and value of PRNG operation programs over adversarial binary keys equals the map model; emptied storages behave like fresh ones; structural walker after every batch.", "5/C02"),
    "C03": ("differential testing of scan against the model's interval content", "All scans explored (endpoint classes x kinds x limits x directions x tree shapes) returned exactly the model's answer, and exactly the documented argument errors.", "5/C03"),
    "C04": ("offline check of scan results against exactly known per-key write histories (ownership), rules a-d; micro-races; preemption explorer for scans (stable keys, bindings over time)",
            "No scan observed returned a value that was never current during the scan, lost a key that was present throughout, or broke order/interval; scans overlapped splits, unlinks and layer-root changes.", "5/C04"),
    "C05": ("direct oracle: read, insert absent key from another session, compare every recorded (version,node) pair; the same oracle on reads taken concurrently (micro-races) and on reads preempted at every shared access (explorer), incl. get-miss with checked version",
            "For all explored (read, absent key) pairs the insert made at least one recorded pair stale; scans/get-miss never returned an empty set.", "5/C05"),
    "C06": ("round classification fresh-and-complete / stale / violation after insert-only races; micro-races; preemption explorer (set fresh => burst's inserts are in the result)", "No round found with all pairs fresh and a key set different from the keys present.", "5/C06"),
    "C07": ("hold-table monitor on the interposed allocator + content re-validation + ASan; collapse micro-races under ASan",
            "No block was released while a session that had obtained a pointer into it was still open, over runs with >= thousands of GC-thread releases during open sessions and injected stalls in enter().", "5/C07"),
    "C08": ("structural walker + three-way API cross-check at quiescent points; collapse / root-creation / parent-split micro-races with the walker after every round; writer preemption explorer + walker", "All quiescent points reached (sequential programs and concurrent churn) were coherent and well formed.", "5/C08"),
    "C09": ("bounded-progress watchdog + lock monitor (owner table, self-wait) + lock bits at quiescence; collapse micro-races on a reused storage; sequential cursor and value workloads as progress-only runs",
            "Every batch finished; no wait-for cycle, leaked lock or self-wait observed; no lock/dirty bit left. Liveness itself is not decidable by observation (restated as bounded progress).", "5/C09"),
    "C10": ("differential testing of cursors vs model; step-interleaved early_abort oracle; concurrent M4 rules for cursors; insert-vs-version-set rounds; micro-races; preemption explorer over whole cursor iterations",
            "All explored cursor iterations matched the model (quiescent) / the write histories (concurrent, single- and multi-layer); early_abort reported every modification of the node under the cursor.", "5/C10"),
    "C11": ("allocation registry balance after fin() over many histories + LeakSanitizer at exit", "0 live library blocks and 0 cursor contexts after every fin(); no double/unknown free or size mismatch.", "5/C11"),
    "C12": ("before/after border-version maps around every put vs inserted_node_info; concurrent conservation oracle (version counter deltas == reports) on bursts of puts and on puts preempted in their lock-free part", "For every explored put the changed-border set equalled {modified_nvp} (+created_nvp iff split); overwrites changed nothing.", "5/C12"),
    "C13": ("differential testing against map<name,map>; exactly-one-winner oracle for racing DDL", "All programs and races explored agreed with the model; bystander storages untouched.", "5/C13"),
    "C14": ("shadow ownership table + open counter + offline slot-occupancy intervals, four capacities", "No token shared, capacity never exceeded, no refusal with a provably free slot, begin epoch non-zero while open.", "5/C14"),
    "C15": ("grid round-trip check with registry cross-check; concurrent readers validate self-describing values under overwrite", "Every cell and every concurrent read validated.", "5/C15"),
    "C16": ("per-cycle measurement script compared with cycle 1 of the same process; lifecycle call that does not return within the stall limit = violation", "Later cycles showed empty namespace, free slots, epoch progress and reclamation while running, like cycle 1.", "5/C16"),
    "C17": ("field-level model on the exhaustive flag/counter-boundary grid + random words; concurrent mutual-exclusion and stable-reader monitor",
            "Grid is enumerated completely (finite); concurrent part is exploration.", "5/C17"),
    "C18": ("reference-order comparison at every comparison site on hand-built nodes; exhaustive pairs over a reduced universe", "All pairs/triples/sites agreed with bytewise order.", "5/C18"),
    "C19": ("vector model after every permutation operation (all orderings for small n); publication log vs reader samples; lookups/scans of never-removed keys of one border under permutation churn and same-key insert races", "All states/operations agreed; readers only saw published words.", "5/C19"),
    "C20": ("independent census by walker + allocation registry vs mem_usage", "All snapshots agreed; used<=reserved; used follows slot count.", "5/C20"),
}


def repo_fix_and_hook_commits():
    out = subprocess.run(["git", "-C", "/repo", "log", "--format=%h %s"], stdout=subprocess.PIPE, text=True).stdout.splitlines()
    hooks = [l.split()[0] for l in out if "observation/yield points" in l or "hook" in l.lower() and not l.split(" ", 1)[1].startswith("fix:")]
    return hooks


def main():
    checks = []
    for pid in sorted(checks_def.CHECKS):
        tech, text, ref = LEVEL[pid]
        checks.append({
            "property_id": pid,
            "quick_cmd": "./vcheck %s --tier quick" % pid,
            "thorough_cmd": "./vcheck %s --tier thorough" % pid,
            "evidence_file": "/verif/evidence/%s.json" % pid,
            "replay_cmd_template": "./vcheck replay {path}",
            "engine": "vcheck",
            "level_claimed": {"category": "exploration", "text": text, "design_ref": "DESIGN.md section " + ref},
            "level_note": "Observation of executions of the real headers (rebuilt from /repo's working tree, hooks on, -fno-access-control for read-only monitors); "
                          "x86-64 TSO hardware interleavings + injected delays only; verdict = held on what was observed.",
            "technique": tech,
        })
    m = {
        "version": 1,
        "setup_cmd": "./vcheck build",
        "hooks": {
            "guard": "YAKUSHIMA_VERIF",
            "enable": "harnesses are compiled with -DYAKUSHIMA_VERIF (include/verif_hook.h); a monitor installs a callback with yakushima::verif::set_hook()",
            "baseline_off_cmd": "./vcheck baseline-off",
            "source_commits": repo_fix_and_hook_commits(),
            "add_only": True,
        },
        "engines": [{"name": "vcheck", "path": "/verif/vcheck", "serves_properties": sorted(checks_def.CHECKS),
                     "kind_free_text": "python driver: hash-keyed rebuild of C++ harnesses (g++, ASan/UBSan or -O2), runs them with VERIF_SEED, "
                                       "matches violation keys against known_findings.json, writes evidence"}],
        "checks": checks,
        "not_applicable": [],
        "notes": "Technique family: runtime monitoring and sanitizers. See DESIGN.md. Genuine defects found by the checks were repaired in /repo with 'fix:' commits and are listed as fixed in known_findings.json.",
    }
    with open(os.path.join(HERE, "MANIFEST.json"), "w") as f:
        json.dump(m, f, indent=1)
    print("MANIFEST.json written with %d checks" % len(checks))


if __name__ == "__main__":
    main()
