#!/usr/bin/env python3
"""Intake of a breaking change written by a sub-agent: confirm, in a scratch
copy of /repo outside /repo and /verif, that (1) the demonstration passes on
the unchanged tree, (2) fails with the change, (3) the library still compiles
and the pinned test suite still passes with the change; then keep it under
/verif/seeded/<id>/ with a meta.json. The scratch copy is always removed.

  seeded_intake.py <id> <property> <dir with patch.diff demo.cpp NOTES.md> [--flags "..."] [--runs N] [--skip-suite]
"""
import json
import os
import shutil
import subprocess
import sys
import time

VERIF = os.path.dirname(os.path.abspath(__file__))


def sh(cmd, **kw):
    return subprocess.run(cmd, stdout=subprocess.PIPE, stderr=subprocess.STDOUT, text=True, **kw)


def main():
    sid, prop, src = sys.argv[1], sys.argv[2], sys.argv[3]
    flags = ""
    runs = 1
    skip_suite = False
    needs = ""
    i = 4
    while i < len(sys.argv):
        if sys.argv[i] == "--flags":
            flags = sys.argv[i + 1]
            i += 2
        elif sys.argv[i] == "--runs":
            runs = int(sys.argv[i + 1])
            i += 2
        elif sys.argv[i] == "--needs":
            needs = sys.argv[i + 1]
            i += 2
        elif sys.argv[i] == "--skip-suite":
            skip_suite = True
            i += 1
        else:
            i += 1
    dst = os.path.join(VERIF, "seeded", sid)
    os.makedirs(dst, exist_ok=True)
    for f in os.listdir(src):
        if f.endswith((".diff", ".cpp", ".md", ".h", ".sh", ".txt")):
            shutil.copy(os.path.join(src, f), os.path.join(dst, f))
    scratch = "/tmp/ws_%s" % sid
    shutil.rmtree(scratch, ignore_errors=True)
    meta = {"id": sid, "property": prop, "needs_to_manifest": needs, "confirmed": {}}
    try:
        sh(["rsync", "-a", "--exclude", "_build", "--exclude", ".git", "/repo/", scratch + "/"])
        demo = os.path.join(dst, "demo.cpp")
        build = "g++ -std=c++17 -O1 -g %s -I%s/include %s -o %s/demo -lglog -ltbb -lpthread" % (flags, scratch, demo, scratch)

        def run_demo(label):
            b = sh(build, shell=True)
            if b.returncode != 0:
                return {"build": "FAILED", "out": b.stdout[-1500:]}
            rcs = []
            for _ in range(runs):
                p = sh([scratch + "/demo"], timeout=1200)
                rcs.append(p.returncode)
                if p.returncode != 0:
                    break
            return {"build": "ok", "exit_codes": rcs, "tail": p.stdout[-600:]}

        meta["confirmed"]["demo_on_unchanged_tree"] = run_demo("orig")
        p = sh(["patch", "-p1", "-d", scratch, "-i", os.path.join(dst, "patch.diff")])
        meta["confirmed"]["patch_applies"] = p.returncode == 0
        if p.returncode != 0:
            meta["confirmed"]["patch_output"] = p.stdout[-800:]
        meta["confirmed"]["demo_with_change"] = run_demo("patched")
        if not skip_suite:
            t0 = time.time()
            b = scratch + "/_b"
            c = sh(["cmake", "-G", "Ninja", "-S", scratch, "-B", b, "-DCMAKE_BUILD_TYPE=RelWithDebInfo"])
            sh(["cmake", "--build", b, "-j", "10", "--", "-k", "0"])
            junit = scratch + "/junit.xml"
            sh(["ctest", "--test-dir", b, "-j8", "--timeout", "600", "-E", "multi_thread_delete_100k_key_test", "--output-junit", junit])
            import xml.etree.ElementTree as ET
            passed = set()
            try:
                for tc in ET.parse(junit).getroot().iter("testcase"):
                    if tc.get("status") == "run" and tc.find("failure") is None and tc.find("error") is None:
                        passed.add(tc.get("name"))
            except Exception as e:  # noqa: BLE001
                meta["confirmed"]["suite_error"] = str(e)
            base = json.load(open("/root/.vp/BASELINE.json"))
            want = {t.split("::")[0] for t in base["stable_pass"]}
            meta["confirmed"]["pinned_suite_with_change"] = {"stable_tests": len(want), "passed": len(want & passed), "not_passed": sorted(want - passed),
                                                            "configure_ok": c.returncode == 0, "wall_s": round(time.time() - t0)}
        ok_orig = meta["confirmed"]["demo_on_unchanged_tree"].get("exit_codes", [1])[-1] == 0
        ok_mut = meta["confirmed"]["demo_with_change"].get("exit_codes", [0])[-1] != 0
        ok_suite = skip_suite or not meta["confirmed"]["pinned_suite_with_change"]["not_passed"]
        meta["accepted"] = bool(ok_orig and ok_mut and ok_suite and meta["confirmed"]["patch_applies"])
    finally:
        shutil.rmtree(scratch, ignore_errors=True)
    meta["demo_build"] = "g++ -std=c++17 -O1 -g %s -I<repo>/include demo.cpp -o demo -lglog -ltbb -lpthread" % flags
    old = {}
    mp = os.path.join(dst, "meta.json")
    if os.path.exists(mp):
        old = json.load(open(mp))
    old.update(meta)
    json.dump(old, open(mp, "w"), indent=1)
    print(json.dumps(meta, indent=1)[:2500])
    return 0 if meta.get("accepted") else 1


if __name__ == "__main__":
    sys.exit(main())
