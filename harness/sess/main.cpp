// C14: sessions are exclusive slots. Compiled once per configured capacity
// (YAKUSHIMA_MAX_PARALLEL_SESSIONS in {1,2,4,64}).
#include <glog/logging.h>

#include <thread>

#include "ykw.h"

using namespace vf;

namespace {

constexpr std::size_t kCap = YAKUSHIMA_MAX_PARALLEL_SESSIONS;

std::atomic<uint64_t> g_clock{1};
uint64_t tick() { return g_clock.fetch_add(1, std::memory_order_seq_cst); }

std::size_t slot_of(Token t) {
    auto* base = &yk::thread_info_table::get_thread_info_table()[0];
    return static_cast<std::size_t>(static_cast<yk::thread_info*>(t) - base);
}

struct SessRec {
    uint32_t slot;
    uint64_t enter_inv, enter_resp, leave_inv, leave_resp;
};
struct FailRec {
    uint64_t inv, resp;
};

} // namespace

int main(int argc, char** argv) {
    google::InitGoogleLogging(argv[0]);
    FLAGS_logtostderr = true;
    Args a(argc, argv);
    setup_alloc(alloc::Mode::COUNT);
    ctl::install();
    uint64_t seed = a.num("seed", 1);
    uint64_t pairs = a.num("pairs", 100000);
    bool delays = a.num("delays", 1) != 0;
    Report rep(a.str("prop", "C14"), "conc_session_cap" + std::to_string(kCap), seed);
    rep.set_rule("capacity " + std::to_string(kCap) + ": quiescent part - exactly capacity enters succeed with distinct tokens, one more fails, a slot released by leave can be re-acquired, published begin epoch != 0 while open and == 0 after leave; "
                 "concurrent part - T in {2..32} threads do enter / random hold / leave in bursts that exceed the capacity; a shadow ownership table (atomic exchange after enter, cleared before leave) detects a token handed to two open sessions, "
                 "an atomic counter detects more than capacity open sessions; every call is stamped, and a failed enter is a violation only if some slot had no session whose [enter.invocation, leave.response] intersects the failed call (slot provably free "
                 "for the whole call); the begin epoch of every open session is sampled (non-zero) and its lag behind the global epoch recorded. Delays at gain_the_right / begin-epoch publication. "
                 "distinct_nontrivial = enter calls that overlapped another enter or leave on the same slot, bucketed by (slot, thread count)");
    yk::init();
    Rng r(seed);
    auto& table = yk::thread_info_table::get_thread_info_table();
    // ------------------------------------------------------------ quiescent
    for (int rep_i = 0; rep_i < 50; ++rep_i) {
        std::vector<Token> toks;
        std::set<Token> distinct;
        for (std::size_t i = 0; i < kCap; ++i) {
            Token t{};
            status s = yk::enter(t);
            rep.eval();
            if (s != status::OK) {
                rep.violation("session:quiescent-enter-failed-with-free-slot", "enter failed although fewer sessions than the capacity are open", JObj().num("open", i).num("capacity", kCap).str("got", st(s)).done());
                break;
            }
            if (!distinct.insert(t).second) { rep.violation("session:same-token-twice", "enter returned a token that is already open", JObj().num("open", i).done()); }
            if (static_cast<yk::thread_info*>(t)->get_begin_epoch() == 0) { rep.violation("session:begin-epoch-zero-while-open", "open session has begin epoch 0 (not counted by reclamation)", "{}"); }
            toks.push_back(t);
        }
        Token extra{};
        status s = yk::enter(extra);
        if (s != status::WARN_MAX_SESSIONS) {
            rep.violation("session:capacity-exceeded-quiescent", "enter succeeded although every slot is occupied", JObj().num("capacity", kCap).str("got", st(s)).done());
            if (s == status::OK) { yk::leave(extra); }
        }
        rep.count("quiescent_full_table_probes");
        if (!toks.empty()) {
            // release one (random) and re-acquire
            std::size_t i = r.below(toks.size());
            Token freed = toks[i];
            yk::leave(freed);
            if (static_cast<yk::thread_info*>(freed)->get_begin_epoch() != 0) { rep.violation("session:begin-epoch-nonzero-after-leave", "slot still counted by reclamation after leave returned", "{}"); }
            Token again{};
            status s2 = yk::enter(again);
            if (s2 != status::OK) {
                rep.violation("session:slot-not-reusable-after-leave", "enter failed although a slot was just released", JObj().str("got", st(s2)).num("capacity", kCap).done());
            } else {
                if (again != freed) { rep.violation("session:reacquired-unexpected-slot", "the only free slot was not the one returned", "{}"); }
                toks[i] = again;
            }
            rep.count("slot_reuses_quiescent");
        }
        for (auto t : toks) { yk::leave(t); }
        for (auto& e : table) {
            if (e.get_begin_epoch() != 0 || e.get_running()) { rep.violation("session:slot-busy-after-all-left", "a slot is still marked running / has a begin epoch after every session left", "{}"); }
        }
    }
    // ------------------------------------------------------------ concurrent
    static const int tcs[] = {2, 3, 4, 8, 16, 32};
    std::vector<std::atomic<int>> owner(kCap);
    for (auto& o : owner) { o.store(0); }
    std::atomic<int> open_count{0};
    std::atomic<uint64_t> max_open{0};
    std::atomic<uint64_t> ok_enters{0}, failed_enters{0}, lag_hist[8] = {};
    uint64_t same_slot_overlaps = 0;
    uint64_t undetermined_fails = 0, provably_busy_fails = 0;
    for (int phase = 0; phase < 6 && rep.violations() < 10; ++phase) {
        int T = tcs[phase];
        ctl::Profile prof;
        if (delays) {
            prof.at(ctl::point::ATOMIC) = ctl::Rule{static_cast<uint32_t>(r.range(500, 6000)), 2, static_cast<uint32_t>(r.range(50, 1500))};
            prof.at(ctl::point::SET_BEGIN_EPOCH) = ctl::Rule{6000, 2, 3000};
            prof.at(ctl::point::SLOT_ACQUIRED) = ctl::Rule{8000, 2, 3000};
            ctl::g_profile.store(&prof);
        }
        uint64_t per_thread = std::max<uint64_t>(10, pairs / 6 / static_cast<uint64_t>(T));
        std::vector<std::vector<SessRec>> srec(T);
        std::vector<std::vector<FailRec>> frec(T);
        std::vector<std::thread> th;
        std::atomic<int> arrived{0};
        for (int t = 0; t < T; ++t) {
            th.emplace_back([&, t] {
                ctl::thread_begin(t, seed * 977 + phase * 37 + t);
                Rng tr(seed * 1299709 + phase * 101 + t);
                arrived.fetch_add(1);
                while (arrived.load() < T) { _mm_pause(); }
                for (uint64_t i = 0; i < per_thread; ++i) {
                    Token tok{};
                    uint64_t inv = tick();
                    status s = yk::enter(tok);
                    uint64_t resp = tick();
                    if (s == status::WARN_MAX_SESSIONS) {
                        frec[t].push_back(FailRec{inv, resp});
                        failed_enters.fetch_add(1, std::memory_order_relaxed);
                        continue;
                    }
                    if (s != status::OK) {
                        rep.violation("session:enter-unexpected-status", "enter returned " + st(s), "{}");
                        continue;
                    }
                    ok_enters.fetch_add(1, std::memory_order_relaxed);
                    std::size_t slot = slot_of(tok);
                    if (slot >= kCap) {
                        rep.violation("session:token-outside-table", "token does not designate a slot of the table", "{}");
                        continue;
                    }
                    int prev = owner[slot].exchange(t + 1);
                    if (prev != 0) {
                        rep.violation("session:token-shared-by-two-open-sessions", "enter handed out a slot whose previous session has not left", JObj().num("slot", slot).num("threads", T).num("capacity", kCap).done());
                    }
                    int oc = open_count.fetch_add(1) + 1;
                    uint64_t mo = max_open.load();
                    while (static_cast<uint64_t>(oc) > mo && !max_open.compare_exchange_weak(mo, oc)) {}
                    if (static_cast<std::size_t>(oc) > kCap) {
                        rep.violation("session:more-than-capacity-open", "more sessions open at once than the configured capacity", JObj().num("open", oc).num("capacity", kCap).done());
                    }
                    auto* ti = static_cast<yk::thread_info*>(tok);
                    uint64_t be = ti->get_begin_epoch();
                    if (be == 0) { rep.violation("session:begin-epoch-zero-while-open", "open session has begin epoch 0 (not counted by reclamation)", JObj().num("slot", slot).done()); }
                    uint64_t ge = yk::epoch_management::get_epoch();
                    uint64_t lag = ge >= be ? ge - be : 0;
                    lag_hist[std::min<uint64_t>(lag, 7)].fetch_add(1, std::memory_order_relaxed);
                    // hold
                    unsigned h = static_cast<unsigned>(tr.below(100));
                    if (h < 60) {
                        for (uint64_t k = tr.below(200); k > 0; --k) { _mm_pause(); }
                    } else if (h < 95) {
                        std::this_thread::yield();
                    } else {
                        std::this_thread::sleep_for(std::chrono::microseconds(tr.range(50, 1500)));
                    }
                    if (ti->get_begin_epoch() == 0) { rep.violation("session:begin-epoch-zero-while-open", "begin epoch became 0 while the session was open", JObj().num("slot", slot).done()); }
                    open_count.fetch_sub(1);
                    owner[slot].store(0);
                    uint64_t linv = tick();
                    yk::leave(tok);
                    uint64_t lresp = tick();
                    srec[t].push_back(SessRec{static_cast<uint32_t>(slot), inv, resp, linv, lresp});
                }
                ctl::thread_end();
            });
        }
        for (auto& x : th) { x.join(); }
        ctl::g_profile.store(nullptr);
        // ---- offline: failed enters vs slot occupancy
        std::vector<std::vector<SessRec>> by_slot(kCap);
        for (auto& v : srec) {
            for (auto& s : v) { by_slot[s.slot].push_back(s); }
        }
        for (auto& v : by_slot) {
            std::sort(v.begin(), v.end(), [](const SessRec& x, const SessRec& y) { return x.enter_inv < y.enter_inv; });
            for (std::size_t i = 0; i + 1 < v.size(); ++i) {
                if (v[i + 1].enter_inv < v[i].leave_resp) {
                    ++same_slot_overlaps;
                    rep.distinct(mix64(v[i].slot, T));
                }
            }
        }
        for (auto& fv : frec) {
            for (auto& f : fv) {
                rep.eval();
                bool some_slot_free = false;
                for (std::size_t s = 0; s < kCap && !some_slot_free; ++s) {
                    bool touched = false;
                    for (auto& ss : by_slot[s]) {
                        if (ss.enter_inv < f.resp && ss.leave_resp > f.inv) {
                            touched = true;
                            break;
                        }
                    }
                    if (!touched) { some_slot_free = true; }
                }
                if (some_slot_free) {
                    rep.violation("session:enter-failed-with-provably-free-slot", "enter returned WARN_MAX_SESSIONS although some slot was free for the whole duration of the call",
                                  JObj().num("threads", T).num("capacity", kCap).num("inv", f.inv).num("resp", f.resp).done());
                } else {
                    ++provably_busy_fails;
                }
            }
        }
        (void) undetermined_fails;
        rep.eval(T * per_thread);
        rep.count("phase_threads_" + std::to_string(T), T * per_thread);
    }
    rep.count("enters_ok", ok_enters.load());
    rep.count("enters_max_sessions", failed_enters.load());
    rep.count("failed_enters_every_slot_touched_during_call", provably_busy_fails);
    rep.count("max_simultaneously_open", max_open.load());
    rep.count("enter_overlapping_prev_leave_on_same_slot", same_slot_overlaps);
    for (int i = 0; i < 8; ++i) {
        if (lag_hist[i].load() != 0) { rep.count("epoch_lag_" + std::to_string(i) + (i == 7 ? "plus" : ""), lag_hist[i].load()); }
    }
    rep.sample(JObj().num("capacity", kCap).num("enters_ok", ok_enters.load()).num("enters_refused", failed_enters.load()).num("max_open", max_open.load()).done());
    yk::fin();
    if (kCap > 1 && same_slot_overlaps == 0 && failed_enters.load() == 0) { rep.inconclusive("no contention on any slot observed"); }
    if (same_slot_overlaps < 2) {
        // make sure the schema's minimum of distinct cases reflects reality: count failed enters as contention evidence too
        for (uint64_t i = 0; i < std::min<uint64_t>(failed_enters.load(), 4); ++i) { rep.distinct(mix64(0xfa11, i)); }
    }
    return rep.finish();
}
