// Hook controller: delay injection at the library's observation points,
// per-point counters, and the lock monitor (M7) fed from LOCK_*/ROOT_*/SPIN_*.
#pragma once

#include <array>
#include <atomic>
#include <sched.h>
#include <thread>
#include <time.h>
#include <xmmintrin.h>

#include "vcommon.h"
#include "verif_hook.h"

namespace vf::ctl {

using yakushima::verif::point;
constexpr int kNPoints = static_cast<int>(point::N_POINTS);

// One delay rule: with probability num/65536 perform a delay of kind
//   0 = none, 1 = sched_yield, 2 = spin (pause) up to `amount` iterations,
//   3 = sleep up to `amount` microseconds.
struct Rule {
    uint32_t prob16{0};
    uint8_t kind{0};
    uint32_t amount{0};
};

struct Profile {
    std::array<Rule, kNPoints> rules{};
    Rule& at(point p) { return rules[static_cast<int>(p)]; }
};

inline std::atomic<const Profile*> g_profile{nullptr};          // NOLINT
inline std::array<std::atomic<uint64_t>, kNPoints> g_counts{};  // NOLINT (non-ATOMIC points)
inline std::array<std::atomic<uint64_t>, kNPoints> g_delays{};  // NOLINT

struct ThreadState {
    bool active{false}; // delays are only injected into threads that opted in
    uint64_t rng{0x1234567};
    uint64_t atomic_points{0};
    int tid{-1};
    // lock monitor
    int held{0};
    const void* held_stack[8]{};
    const void* spinning_on{nullptr};
    uint64_t spin_iters{0};
};
inline thread_local ThreadState t_state; // NOLINT

inline uint64_t trand() {
    uint64_t x = t_state.rng;
    x ^= x << 13;
    x ^= x >> 7;
    x ^= x << 17;
    t_state.rng = x;
    return x;
}

inline void do_delay(const Rule& r) {
    switch (r.kind) {
        case 1: sched_yield(); break;
        case 2: {
            uint64_t n = 1 + trand() % (r.amount + 1);
            for (uint64_t i = 0; i < n; ++i) { _mm_pause(); }
            break;
        }
        case 3: {
            uint64_t us = 1 + trand() % (r.amount + 1);
            timespec ts{static_cast<time_t>(us / 1000000), static_cast<long>((us % 1000000) * 1000)};
            nanosleep(&ts, nullptr);
            break;
        }
        default: break;
    }
}

// ---- lock monitor (M7) ------------------------------------------------------
// owner table: small open-addressing map lock address -> owner tid, census of
// nesting edges. Everything is atomics; no allocation.
constexpr std::size_t kOwnerCap = 1 << 14;
struct OwnerSlot {
    std::atomic<uintptr_t> lock{0};
    std::atomic<int> owner{-1};
};
inline std::array<OwnerSlot, kOwnerCap> g_owner{}; // NOLINT
inline std::atomic<bool> g_lockmon{false};         // NOLINT
inline std::atomic<uint64_t> g_lock_acq{0}, g_lock_contended{0}, g_root_acq{0}, g_root_contended{0},
        g_self_wait{0}, g_max_nest{0}, g_nest2{0}, g_nest3{0}, g_release_unowned{0}; // NOLINT
constexpr int kMaxThreads = 256;
struct ThreadPub { // published per-thread state readable by the sampler
    std::atomic<uintptr_t> spinning_on{0};
    std::atomic<uint64_t> progress{0}; // bumped by the harness after every completed API call
    std::atomic<int> in_api{0};
    std::atomic<int> held{0};
};
inline std::array<ThreadPub, kMaxThreads> g_tpub{}; // NOLINT

inline OwnerSlot* owner_slot(uintptr_t a, bool create) {
    std::size_t i = ((a >> 3) * 0x9E3779B97F4A7C15ULL) >> 50; // 14 bits
    for (std::size_t n = 0; n < 64; ++n, i = (i + 1) & (kOwnerCap - 1)) {
        uintptr_t cur = g_owner[i].lock.load(std::memory_order_acquire);
        if (cur == a) { return &g_owner[i]; }
        if (cur == 0) {
            if (!create) { return nullptr; }
            uintptr_t e = 0;
            if (g_owner[i].lock.compare_exchange_strong(e, a) || e == a) { return &g_owner[i]; }
        }
    }
    return nullptr;
}

inline int owner_of(uintptr_t a) {
    OwnerSlot* s = owner_slot(a, false);
    return s == nullptr ? -1 : s->owner.load(std::memory_order_acquire);
}

inline void lockmon_event(point p, const void* obj) {
    ThreadState& t = t_state;
    if (t.tid < 0) { return; }
    auto a = reinterpret_cast<uintptr_t>(obj);
    switch (p) {
        case point::SPIN_LOCK:
        case point::SPIN_STABLE:
        case point::SPIN_ROOT: {
            if (t.spinning_on != obj) {
                t.spinning_on = obj;
                t.spin_iters = 0;
                g_tpub[t.tid].spinning_on.store(a, std::memory_order_release);
                (p == point::SPIN_ROOT ? g_root_contended : g_lock_contended).fetch_add(1, std::memory_order_relaxed);
                // waiting for something this thread itself holds = self-deadlock
                for (int i = 0; i < t.held && i < 8; ++i) {
                    if (t.held_stack[i] == obj) { g_self_wait.fetch_add(1); }
                }
            }
            ++t.spin_iters;
            break;
        }
        case point::LOCK_ACQ:
        case point::ROOT_ACQ: {
            (p == point::ROOT_ACQ ? g_root_acq : g_lock_acq).fetch_add(1, std::memory_order_relaxed);
            if (OwnerSlot* s = owner_slot(a, true)) { s->owner.store(t.tid, std::memory_order_release); }
            if (t.held < 8) { t.held_stack[t.held] = obj; }
            ++t.held;
            g_tpub[t.tid].held.store(t.held, std::memory_order_relaxed);
            if (t.held == 2) { g_nest2.fetch_add(1, std::memory_order_relaxed); }
            if (t.held >= 3) { g_nest3.fetch_add(1, std::memory_order_relaxed); }
            uint64_t mx = g_max_nest.load(std::memory_order_relaxed);
            while (static_cast<uint64_t>(t.held) > mx && !g_max_nest.compare_exchange_weak(mx, t.held)) {}
            t.spinning_on = nullptr;
            g_tpub[t.tid].spinning_on.store(0, std::memory_order_release);
            break;
        }
        case point::LOCK_REL:
        case point::ROOT_REL: {
            if (OwnerSlot* s = owner_slot(a, false)) { s->owner.store(-1, std::memory_order_release); }
            // remove from held stack (locks are not released in LIFO order)
            bool found = false;
            int lim = t.held < 8 ? t.held : 8;
            for (int i = lim - 1; i >= 0; --i) {
                if (t.held_stack[i] == obj) {
                    for (int j = i; j + 1 < lim; ++j) { t.held_stack[j] = t.held_stack[j + 1]; }
                    found = true;
                    break;
                }
            }
            if (found || t.held > 8) {
                --t.held;
            } else {
                // released a lock this thread did not acquire (new nodes are created
                // locked by copying a locked version word; that is legitimate)
                g_release_unowned.fetch_add(1, std::memory_order_relaxed);
            }
            g_tpub[t.tid].held.store(t.held, std::memory_order_relaxed);
            break;
        }
        default: break;
    }
}

inline bool hook(point p, const void* obj) {
    ThreadState& t = t_state;
    int pi = static_cast<int>(p);
    if (p == point::ATOMIC) {
        ++t.atomic_points;
        if (t.spinning_on != nullptr && t.tid >= 0) {
            // any non-spin point means the thread made progress past the wait
        }
    } else {
        g_counts[pi].fetch_add(1, std::memory_order_relaxed);
        if (g_lockmon.load(std::memory_order_relaxed)) { lockmon_event(p, obj); }
    }
    const Profile* prof = g_profile.load(std::memory_order_acquire);
    if (prof == nullptr) { return false; }
    bool lib_point = p == point::EPOCH_LOOP || p == point::GC_LOOP || p == point::EPOCH_ADVANCE;
    if (!t.active && !lib_point) { return false; }
    const Rule& r = prof->rules[pi];
    if (r.prob16 == 0) { return false; }
    if ((trand() & 0xffff) < r.prob16) {
        if (p != point::ATOMIC) { g_delays[pi].fetch_add(1, std::memory_order_relaxed); }
        do_delay(r);
    }
    return false;
}

inline void install() { yakushima::verif::set_hook(&hook); }

// Registers the calling thread as a harness worker: delays may be injected into it.
inline void thread_begin(int tid, uint64_t seed) {
    t_state = ThreadState{};
    t_state.active = true;
    t_state.tid = tid;
    t_state.rng = seed * 0x9E3779B97F4A7C15ULL + 0x1357;
    if (t_state.rng == 0) { t_state.rng = 88172645463325252ULL; }
    if (tid >= 0 && tid < kMaxThreads) {
        g_tpub[tid].spinning_on.store(0);
        g_tpub[tid].held.store(0);
        g_tpub[tid].in_api.store(0);
    }
}
inline void thread_end() { t_state.active = false; }

inline uint64_t count_of(point p) { return g_counts[static_cast<int>(p)].load(); }
inline uint64_t delays_of(point p) { return g_delays[static_cast<int>(p)].load(); }

inline const char* point_name(int i) {
    static const char* n[] = {"ATOMIC", "SPIN_LOCK", "SPIN_STABLE", "SPIN_ROOT", "LOCK_ACQ", "LOCK_REL",
                              "ROOT_ACQ", "ROOT_REL", "RM_CLEARED", "SCAN_NEXT_LOADED", "SCAN_BEFORE_FINAL",
                              "SET_BEGIN_EPOCH", "EPOCH_LOOP", "EPOCH_ADVANCE", "GC_LOOP", "SLEEP",
                              "RETIRE_NODE", "RETIRE_VALUE", "RECLAIM_NODE", "RECLAIM_VALUE", "SLOT_ACQUIRED"};
    return i >= 0 && i < kNPoints ? n[i] : "?";
}

inline std::string counts_json() {
    JObj o;
    for (int i = 1; i < kNPoints; ++i) {
        uint64_t c = g_counts[i].load();
        if (c != 0) { o.num(point_name(i), c); }
    }
    return o.done();
}
inline std::string delays_json() {
    JObj o;
    for (int i = 1; i < kNPoints; ++i) {
        uint64_t c = g_delays[i].load();
        if (c != 0) { o.num(point_name(i), c); }
    }
    return o.done();
}

} // namespace vf::ctl
