// M6 implementation: replacement of the global operator new/delete family.
#include "allocreg.h"

#include <atomic>
#include <cstdio>
#include <cstdlib>
#include <cstring>
#include <mutex>
#include <new>
#include <unordered_map>

namespace vf::alloc {

namespace {

template<class T>
struct MallocAlloc {
    using value_type = T;
    MallocAlloc() = default;
    template<class U>
    MallocAlloc(const MallocAlloc<U>&) {} // NOLINT
    T* allocate(std::size_t n) { return static_cast<T*>(std::malloc(n * sizeof(T))); }
    void deallocate(T* p, std::size_t) { std::free(p); }
    template<class U>
    bool operator==(const MallocAlloc<U>&) const { return true; }
    template<class U>
    bool operator!=(const MallocAlloc<U>&) const { return false; }
};

struct Rec {
    std::size_t size;
    std::size_t align;
    uint64_t seq;
    bool is_node;
    std::vector<uint64_t, MallocAlloc<uint64_t>> holders;
};

constexpr std::size_t kShards = 128;
struct Shard {
    std::mutex mu;
    std::unordered_map<uintptr_t, Rec, std::hash<uintptr_t>, std::equal_to<uintptr_t>,
                       MallocAlloc<std::pair<const uintptr_t, Rec>>>
            map;
};

std::atomic<int> g_mode{0};
thread_local int t_role = ROLE_LIB;
thread_local bool t_watch = false;
std::size_t g_border_size = 0, g_interior_size = 0, g_version_off = 0;
std::atomic<std::size_t> g_watched_size{0};

std::atomic<uint64_t> c_allocs{0}, c_frees{0}, c_live_blocks{0}, c_live_bytes{0}, c_node_allocs{0},
        c_node_frees{0}, c_value_allocs{0}, c_value_frees{0}, c_free_lib{0}, c_free_worker{0},
        c_free_main{0}, c_watched_live{0}, c_watched_allocs{0}, c_un_allocs{0}, c_un_frees{0},
        c_peak{0}, c_seq{0};

Shard* shards() {
    // leaked on purpose: must outlive every static destructor that frees memory
    static Shard* s = new (std::malloc(sizeof(Shard) * kShards)) Shard[kShards];
    return s;
}
Shard& shard_of(uintptr_t a) { return shards()[(a >> 6) * 0x9E3779B97F4A7C15ULL >> 57]; }

std::mutex& prob_mu() {
    static std::mutex* m = new (std::malloc(sizeof(std::mutex))) std::mutex;
    return *m;
}
std::vector<Problem>& probs() {
    static auto* v = new (std::malloc(sizeof(std::vector<Problem>))) std::vector<Problem>;
    return *v;
}
void add_problem(const char* key, const std::string& detail) {
    std::lock_guard<std::mutex> g(prob_mu());
    if (probs().size() < 64) { probs().push_back(Problem{key, detail}); }
}

// watched unaligned blocks: open addressing table of addresses
constexpr std::size_t kWatchCap = 1 << 14;
std::atomic<uintptr_t> g_watch[kWatchCap];

void watch_add(uintptr_t a) {
    std::size_t i = (a >> 4) % kWatchCap;
    for (std::size_t n = 0; n < kWatchCap; ++n, i = (i + 1) % kWatchCap) {
        uintptr_t e = 0;
        if (g_watch[i].compare_exchange_strong(e, a)) {
            c_watched_live.fetch_add(1);
            c_watched_allocs.fetch_add(1);
            return;
        }
    }
}
void watch_del(uintptr_t a) {
    std::size_t i = (a >> 4) % kWatchCap;
    for (std::size_t n = 0; n < kWatchCap; ++n, i = (i + 1) % kWatchCap) {
        uintptr_t e = g_watch[i].load();
        if (e == a) {
            // tombstone value 1 keeps probe chains intact
            g_watch[i].store(1);
            c_watched_live.fetch_sub(1);
            return;
        }
        if (e == 0) { return; }
    }
}

bool is_node_block(std::size_t size, std::size_t align) {
    return align == 64 && (size == g_border_size || size == g_interior_size);
}

void* do_aligned_new(std::size_t size, std::size_t align) {
    if (align < sizeof(void*)) { align = sizeof(void*); }
    std::size_t rounded = (size + align - 1) / align * align;
    if (rounded == 0) { rounded = align; }
    void* p = std::aligned_alloc(align, rounded);
    if (p == nullptr) { throw std::bad_alloc(); }
    int m = g_mode.load(std::memory_order_relaxed);
    if (m == 0) { return p; }
    bool node = is_node_block(size, align);
    c_allocs.fetch_add(1, std::memory_order_relaxed);
    (node ? c_node_allocs : c_value_allocs).fetch_add(1, std::memory_order_relaxed);
    uint64_t live = c_live_blocks.fetch_add(1, std::memory_order_relaxed) + 1;
    c_live_bytes.fetch_add(size, std::memory_order_relaxed);
    uint64_t pk = c_peak.load(std::memory_order_relaxed);
    while (live > pk && !c_peak.compare_exchange_weak(pk, live)) {}
    if (m == 2) {
        auto a = reinterpret_cast<uintptr_t>(p);
        Shard& s = shard_of(a);
        std::lock_guard<std::mutex> g(s.mu);
        Rec r{size, align, c_seq.fetch_add(1) + 1, node, {}};
        auto [it, ins] = s.map.emplace(a, std::move(r));
        if (!ins) {
            // the allocator handed out an address we believe is live: registry bug
            add_problem("registry-address-reuse", "{}");
            it->second = Rec{size, align, c_seq.fetch_add(1) + 1, node, {}};
        }
    }
    return p;
}

void do_aligned_delete(void* p, std::size_t size /*0 = unknown*/, std::size_t align /*0 = unknown*/) {
    if (p == nullptr) { return; }
    int m = g_mode.load(std::memory_order_relaxed);
    if (m == 0) {
        std::free(p);
        return;
    }
    std::size_t rec_size = size;
    bool node = false;
    bool known = true;
    if (m == 2) {
        auto a = reinterpret_cast<uintptr_t>(p);
        Shard& s = shard_of(a);
        std::unique_lock<std::mutex> g(s.mu);
        auto it = s.map.find(a);
        if (it == s.map.end()) {
            g.unlock();
            char b[96];
            snprintf(b, sizeof b, "{\"size_arg\":%zu,\"align_arg\":%zu,\"role\":%d}", size, align, t_role);
            add_problem("free-of-unknown-or-freed-block", b);
            // do not pass to free(): a double free would abort the process before we report
            return;
        }
        Rec& r = it->second;
        rec_size = r.size;
        node = r.is_node;
        if ((size != 0 && size != r.size) || (align != 0 && align != r.align)) {
            char b[160];
            snprintf(b, sizeof b,
                     "{\"alloc_size\":%zu,\"alloc_align\":%zu,\"free_size\":%zu,\"free_align\":%zu,\"is_node\":%s}",
                     r.size, r.align, size, align, r.is_node ? "true" : "false");
            add_problem("size-or-alignment-mismatch", b);
        }
        if (!r.holders.empty()) {
            char b[200];
            snprintf(b, sizeof b,
                     "{\"is_node\":%s,\"size\":%zu,\"holders\":%zu,\"first_holder\":%llu,\"freed_by_role\":%d}",
                     r.is_node ? "true" : "false", r.size, r.holders.size(),
                     static_cast<unsigned long long>(r.holders[0]), t_role);
            add_problem(r.is_node ? "node-freed-while-held" : "value-freed-while-held", b);
        }
        s.map.erase(it);
    } else {
        node = is_node_block(size, align);
        known = size != 0;
    }
    c_frees.fetch_add(1, std::memory_order_relaxed);
    (node ? c_node_frees : c_value_frees).fetch_add(1, std::memory_order_relaxed);
    c_live_blocks.fetch_sub(1, std::memory_order_relaxed);
    if (known) { c_live_bytes.fetch_sub(rec_size, std::memory_order_relaxed); }
    switch (t_role) {
        case ROLE_LIB: c_free_lib.fetch_add(1, std::memory_order_relaxed); break;
        case ROLE_WORKER: c_free_worker.fetch_add(1, std::memory_order_relaxed); break;
        default: c_free_main.fetch_add(1, std::memory_order_relaxed); break;
    }
    std::free(p);
}

void* do_new(std::size_t size) {
    void* p = std::malloc(size == 0 ? 1 : size);
    if (p == nullptr) { throw std::bad_alloc(); }
    if (g_mode.load(std::memory_order_relaxed) != 0) {
        c_un_allocs.fetch_add(1, std::memory_order_relaxed);
        std::size_t w = g_watched_size.load(std::memory_order_relaxed);
        if (w != 0 && size == w && t_watch) { watch_add(reinterpret_cast<uintptr_t>(p)); }
    }
    return p;
}

void do_delete(void* p) {
    if (p == nullptr) { return; }
    if (g_mode.load(std::memory_order_relaxed) != 0) {
        c_un_frees.fetch_add(1, std::memory_order_relaxed);
        if (g_watched_size.load(std::memory_order_relaxed) != 0 && c_watched_live.load() != 0) {
            watch_del(reinterpret_cast<uintptr_t>(p));
        }
    }
    std::free(p);
}

} // namespace

void set_mode(Mode m) { g_mode.store(static_cast<int>(m)); }
Mode mode() { return static_cast<Mode>(g_mode.load()); }
void set_role(Role r) { t_role = r; }
Role role() { return static_cast<Role>(t_role); }
void set_node_sizes(std::size_t border, std::size_t interior) {
    g_border_size = border;
    g_interior_size = interior;
}
void set_version_offset(std::size_t off) { g_version_off = off; }
void set_watched_size(std::size_t sz) { g_watched_size.store(sz); }
void watch_window(bool on) { t_watch = on; }

Counters counters() {
    Counters c{};
    c.allocs = c_allocs;
    c.frees = c_frees;
    c.live_blocks = c_live_blocks;
    c.live_bytes = c_live_bytes;
    c.node_allocs = c_node_allocs;
    c.node_frees = c_node_frees;
    c.value_allocs = c_value_allocs;
    c.value_frees = c_value_frees;
    c.frees_by_lib = c_free_lib;
    c.frees_by_worker = c_free_worker;
    c.frees_by_main = c_free_main;
    c.watched_live = c_watched_live;
    c.watched_allocs = c_watched_allocs;
    c.unaligned_allocs = c_un_allocs;
    c.unaligned_frees = c_un_frees;
    c.peak_live_blocks = c_peak;
    return c;
}

static bool find_exact(uintptr_t a, uintptr_t p, Block& out, uint64_t holder, bool add_holder) {
    Shard& s = shard_of(a);
    std::lock_guard<std::mutex> g(s.mu);
    auto it = s.map.find(a);
    if (it == s.map.end()) { return false; }
    Rec& r = it->second;
    if (p < a || p > a + r.size) { return false; } // one-past-the-end is the body of a zero-length value
    out = Block{reinterpret_cast<const void*>(a), r.size, r.align, r.seq, r.is_node};
    if (add_holder) {
        bool present = false;
        for (auto h : r.holders) { present = present || h == holder; }
        if (!present) { r.holders.push_back(holder); }
    }
    return true;
}

static bool resolve_impl(const void* ptr, Block& out, uint64_t holder, bool add_holder) {
    auto p = reinterpret_cast<uintptr_t>(ptr);
    if (p == 0) { return false; }
    if (find_exact(p, p, out, holder, add_holder)) { return true; }
    // node version word
    if (g_version_off != 0 && p > g_version_off) {
        uintptr_t a = p - g_version_off;
        if ((a & 63U) == 0 && find_exact(a, p, out, holder, false)) {
            if (out.is_node) {
                if (add_holder) { find_exact(a, p, out, holder, true); }
                return true;
            }
        }
    }
    // value body: base = p - max(align, 8)
    for (std::size_t al = 8; al <= 32768; al <<= 1) {
        if (p <= al) { break; }
        if ((p & (al - 1)) != 0) { break; } // body is aligned to al, larger al impossible
        uintptr_t a = p - al;
        Block b{};
        if (find_exact(a, p, b, holder, false) && b.align == al) {
            out = b;
            if (add_holder) { find_exact(a, p, out, holder, true); }
            return true;
        }
    }
    return false;
}

bool resolve(const void* p, Block& out) { return resolve_impl(p, out, 0, false); }

bool hold(const void* p, uint64_t holder, Block* out) {
    Block b{};
    bool ok = resolve_impl(p, b, holder, true);
    if (ok && out != nullptr) { *out = b; }
    return ok;
}

void unhold(const std::vector<std::pair<const void*, uint64_t>>& blocks, uint64_t holder) {
    for (auto& [base, seq] : blocks) {
        auto a = reinterpret_cast<uintptr_t>(base);
        Shard& s = shard_of(a);
        std::lock_guard<std::mutex> g(s.mu);
        auto it = s.map.find(a);
        if (it == s.map.end() || it->second.seq != seq) { continue; }
        auto& hs = it->second.holders;
        for (std::size_t i = 0; i < hs.size(); ++i) {
            if (hs[i] == holder) {
                hs[i] = hs.back();
                hs.pop_back();
                break;
            }
        }
    }
}

void clear_all_holds() {
    for (std::size_t i = 0; i < kShards; ++i) {
        Shard& s = shards()[i];
        std::lock_guard<std::mutex> g(s.mu);
        for (auto& kv : s.map) { kv.second.holders.clear(); }
    }
}

std::vector<Problem> take_problems() {
    std::lock_guard<std::mutex> g(prob_mu());
    std::vector<Problem> out;
    out.swap(probs());
    return out;
}

std::vector<Block> live_blocks_snapshot(std::size_t max) {
    std::vector<Block> out;
    for (std::size_t i = 0; i < kShards && out.size() < max; ++i) {
        Shard& s = shards()[i];
        std::lock_guard<std::mutex> g(s.mu);
        for (auto& kv : s.map) {
            if (out.size() >= max) { break; }
            out.push_back(Block{reinterpret_cast<const void*>(kv.first), kv.second.size, kv.second.align,
                                kv.second.seq, kv.second.is_node});
        }
    }
    return out;
}

} // namespace vf::alloc

// ------------------------------------------------------------------ global replacements
using vf::alloc::do_aligned_delete;
using vf::alloc::do_aligned_new;
using vf::alloc::do_delete;
using vf::alloc::do_new;

void* operator new(std::size_t n) { return do_new(n); }
void* operator new[](std::size_t n) { return do_new(n); }
void* operator new(std::size_t n, const std::nothrow_t&) noexcept {
    try {
        return do_new(n);
    } catch (...) { return nullptr; }
}
void* operator new[](std::size_t n, const std::nothrow_t&) noexcept {
    try {
        return do_new(n);
    } catch (...) { return nullptr; }
}
void operator delete(void* p) noexcept { do_delete(p); }
void operator delete[](void* p) noexcept { do_delete(p); }
void operator delete(void* p, std::size_t) noexcept { do_delete(p); }
void operator delete[](void* p, std::size_t) noexcept { do_delete(p); }
void operator delete(void* p, const std::nothrow_t&) noexcept { do_delete(p); }
void operator delete[](void* p, const std::nothrow_t&) noexcept { do_delete(p); }

void* operator new(std::size_t n, std::align_val_t a) { return do_aligned_new(n, static_cast<std::size_t>(a)); }
void* operator new[](std::size_t n, std::align_val_t a) { return do_aligned_new(n, static_cast<std::size_t>(a)); }
void* operator new(std::size_t n, std::align_val_t a, const std::nothrow_t&) noexcept {
    try {
        return do_aligned_new(n, static_cast<std::size_t>(a));
    } catch (...) { return nullptr; }
}
void* operator new[](std::size_t n, std::align_val_t a, const std::nothrow_t&) noexcept {
    try {
        return do_aligned_new(n, static_cast<std::size_t>(a));
    } catch (...) { return nullptr; }
}
void operator delete(void* p, std::align_val_t a) noexcept { do_aligned_delete(p, 0, static_cast<std::size_t>(a)); }
void operator delete[](void* p, std::align_val_t a) noexcept { do_aligned_delete(p, 0, static_cast<std::size_t>(a)); }
void operator delete(void* p, std::size_t n, std::align_val_t a) noexcept {
    do_aligned_delete(p, n, static_cast<std::size_t>(a));
}
void operator delete[](void* p, std::size_t n, std::align_val_t a) noexcept {
    do_aligned_delete(p, n, static_cast<std::size_t>(a));
}
void operator delete(void* p, std::align_val_t a, const std::nothrow_t&) noexcept {
    do_aligned_delete(p, 0, static_cast<std::size_t>(a));
}
void operator delete[](void* p, std::align_val_t a, const std::nothrow_t&) noexcept {
    do_aligned_delete(p, 0, static_cast<std::size_t>(a));
}
