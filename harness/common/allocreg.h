// M6: allocation registry. The harness binary replaces the global
// operator new/delete family (see allocreg.cpp). Every node and every
// out-of-line value of yakushima is over-aligned or explicitly aligned, so
// the *aligned* overloads see exactly the library-owned blocks; the harness
// itself never allocates through them.
#pragma once

#include <cstddef>
#include <cstdint>
#include <string>
#include <vector>

namespace vf::alloc {

enum class Mode : int {
    OFF = 0,   // pass-through
    COUNT = 1, // counters only
    FULL = 2,  // address -> block registry, hold table, mismatch detection
};

enum Role : int {
    ROLE_LIB = 0,    // thread not created by the harness (epoch / gc / destroy helpers)
    ROLE_MAIN = 1,
    ROLE_WORKER = 2,
};

struct Block {
    const void* base;
    std::size_t size;
    std::size_t align;
    uint64_t seq;
    bool is_node;
};

struct Counters {
    uint64_t allocs, frees;               // aligned family
    uint64_t live_blocks, live_bytes;     // aligned family, currently live
    uint64_t node_allocs, node_frees;
    uint64_t value_allocs, value_frees;
    uint64_t frees_by_lib, frees_by_worker, frees_by_main;
    uint64_t watched_live;                // unaligned blocks of the watched size currently live
    uint64_t watched_allocs;
    uint64_t unaligned_allocs, unaligned_frees;
    uint64_t peak_live_blocks;
};

// A problem detected by the registry itself (never thrown from inside the
// allocator; collected and fetched by the harness).
struct Problem {
    std::string key;    // stable key, e.g. "double-free", "size-mismatch", "freed-while-held"
    std::string detail; // JSON object
};

void set_mode(Mode m);
Mode mode();
void set_role(Role r);
Role role();
void set_node_sizes(std::size_t border, std::size_t interior);
void set_watched_size(std::size_t sz); // unaligned allocations of this size are tracked (cursors) ...
void watch_window(bool on);           // ... but only those made by this thread while the window is open
Counters counters();

// FULL mode -------------------------------------------------------------
// Resolve a pointer handed out by the API (value body, node version word,
// or block base) to the live block containing it. version_off = offset of
// the version word inside a node.
bool resolve(const void* p, Block& out);
void set_version_offset(std::size_t off);

// Hold table: `holder` identifies one session incarnation.
// returns false if p does not resolve to a live block.
bool hold(const void* p, uint64_t holder, Block* out = nullptr);
// drop the holds of one holder on the given blocks (base, seq pairs)
void unhold(const std::vector<std::pair<const void*, uint64_t>>& blocks, uint64_t holder);
// forget all holds (before whole-tree releases)
void clear_all_holds();

std::vector<Problem> take_problems();
// all live aligned blocks (FULL mode), for leak witnesses
std::vector<Block> live_blocks_snapshot(std::size_t max = 16);

} // namespace vf::alloc
