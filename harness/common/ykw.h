// Thin client-side wrappers around the yakushima API used by all harnesses.
#pragma once

#include <functional>
#include <map>
#include <string>
#include <string_view>
#include <tuple>
#include <vector>

#include "allocreg.h"
#include "ctl.h"
#include "kvs.h"
#include "vcommon.h"
#include "walker.h"

namespace vf {

namespace yk = yakushima;
using yk::scan_endpoint;
using yk::status;
using yk::Token;

inline std::string st(status s) { return std::string(yk::to_string_view(s)); }
inline const char* ep(scan_endpoint e) {
    return e == scan_endpoint::INF ? "INF" : (e == scan_endpoint::INCLUSIVE ? "INCL" : "EXCL");
}

using Model = std::map<std::string, std::string>;
using ScanTuple = std::tuple<std::string, char*, std::size_t>;
using NvVec = std::vector<std::pair<yk::node_version64_body, yk::node_version64*>>;

inline void setup_alloc(alloc::Mode m) {
    alloc::set_node_sizes(sizeof(yk::border_node), sizeof(yk::interior_node));
    yk::border_node* probe = nullptr;
    (void) probe;
    // offset of the version word inside a node (base_node::version_)
    alloc::set_version_offset(static_cast<std::size_t>(
            reinterpret_cast<char*>(&reinterpret_cast<yk::border_node*>(4096)->version_) - // NOLINT
            reinterpret_cast<char*>(4096)));                                                // NOLINT
    alloc::set_watched_size(sizeof(yk::iscan_context));
    alloc::set_role(alloc::ROLE_MAIN);
    alloc::set_mode(m);
}

struct Session {
    Token tok{};
    bool open{false};
    status enter() {
        status s = yk::enter(tok);
        open = (s == status::OK);
        return s;
    }
    void leave() {
        if (open) {
            yk::leave(tok);
            open = false;
        }
    }
    void reenter() {
        leave();
        while (enter() != status::OK) { _mm_pause(); }
    }
};

inline status yput(Token t, std::string_view storage, std::string_view key, std::string_view val,
                   bool unique = false, std::size_t align = 1, char** created = nullptr,
                   yk::inserted_node_info* ini = nullptr) {
    // the library memcpy()s from value_ptr even for length 0; give it a valid address
    static char dummy = 0;
    char* p = val.empty() ? &dummy : const_cast<char*>(val.data()); // NOLINT
    return yk::put<char>(t, storage, key, p, val.size(), created, static_cast<yk::value_align_type>(align), unique,
                         ini);
}

inline status yget(std::string_view storage, std::string_view key, std::pair<char*, std::size_t>& out,
                   std::pair<yk::node_version64_body, yk::node_version64*>* cv = nullptr) {
    out = {nullptr, 0};
    return yk::get<char>(storage, key, out, cv);
}

// expected result of a range query on the model
inline std::vector<std::pair<std::string, std::string>>
model_range(const Model& m, std::string_view l, scan_endpoint le, std::string_view r, scan_endpoint re) {
    std::vector<std::pair<std::string, std::string>> out;
    auto it = m.begin();
    if (le == scan_endpoint::INCLUSIVE) { it = m.lower_bound(std::string(l)); }
    if (le == scan_endpoint::EXCLUSIVE) { it = m.upper_bound(std::string(l)); }
    for (; it != m.end(); ++it) {
        if (re != scan_endpoint::INF) {
            int c = std::string_view(it->first).compare(r);
            if (c > 0 || (c == 0 && re == scan_endpoint::EXCLUSIVE)) { break; }
        }
        out.emplace_back(it->first, it->second);
    }
    return out;
}

// documented argument validation of scan / iscan_open (range part)
inline bool model_range_is_bad(std::string_view l, scan_endpoint le, std::string_view r, scan_endpoint re) {
    if ((l.data() == nullptr && !l.empty()) || (r.data() == nullptr && !r.empty())) { return true; }
    if (le != scan_endpoint::INF && re != scan_endpoint::INF) {
        int c = l.compare(r);
        if (c > 0) { return true; }
        if (c == 0 && (le == scan_endpoint::EXCLUSIVE || re == scan_endpoint::EXCLUSIVE)) { return true; }
    }
    if (r.empty() && re == scan_endpoint::EXCLUSIVE) { return true; }
    return false;
}

// Full key list via a backward cursor (for the three-way coherence check)
struct CursorItem {
    std::string key;
    void* value;
};
inline status cursor_collect(std::string_view storage, std::string_view l, scan_endpoint le, std::string_view r,
                             scan_endpoint re, bool r2l, std::vector<CursorItem>& out, std::size_t stop_after = 0,
                             const std::function<bool(yk::node_version64*, yk::node_version64_body)>* cb = nullptr,
                             bool early_abort = false, std::size_t* max_stack = nullptr) {
    out.clear();
    yk::iscan_context* ctx = nullptr;
    void* v = nullptr;
    alloc::watch_window(true);
    status rc = cb != nullptr ? yk::iscan_open(storage, l, le, r, re, r2l, early_abort, ctx, v, *cb)
                              : yk::iscan_open(storage, l, le, r, re, r2l, early_abort, ctx, v);
    alloc::watch_window(false);
    while (rc == status::OK) {
        if (max_stack != nullptr) { *max_stack = std::max<std::size_t>(*max_stack, ctx->stack_size()); }
        out.push_back(CursorItem{ctx->full_key(), v});
        if (stop_after != 0 && out.size() >= stop_after) { break; }
        rc = cb != nullptr ? yk::iscan_next(ctx, v, *cb) : yk::iscan_next(ctx, v);
    }
    if (ctx != nullptr) { yk::iscan_close(ctx); }
    return rc;
}

// three-way coherence + structure check of one storage against a model (C08 oracle)
// returns number of problems reported
inline int coherence_check(Report& rep, std::string_view storage, const Model& model, bool check_registry,
                           WalkResult* out_walk = nullptr, bool check_backward = true) {
    int problems = 0;
    yk::tree_instance* ti = nullptr;
    if (yk::find_storage(storage, &ti) != status::OK) {
        rep.violation("coherence:storage-missing", "storage not found at quiescent point", "{}");
        return 1;
    }
    Walker w(check_registry);
    WalkResult wr = w.walk(ti);
    for (auto& [k, d] : wr.errors) {
        rep.violation("walker:" + k, "structural invariant broken at a quiescent point", d);
        ++problems;
    }
    rep.count("walker_runs");
    rep.count("walker_nodes", wr.n_border + wr.n_interior);
    rep.maxc("walker_max_depth", wr.max_depth);
    rep.maxc("walker_max_layers", wr.n_layers);
    // walker entries vs model
    bool same = wr.entries.size() == model.size();
    if (same) {
        auto it = model.begin();
        for (auto& e : wr.entries) {
            if (e.key != it->first) {
                same = false;
                break;
            }
            ++it;
        }
    }
    if (!same) {
        JObj d;
        d.num("walk_keys", wr.entries.size()).num("model_keys", model.size());
        rep.violation("coherence:leaf-walk-differs-from-model", "in-order leaf walk differs from the model", d.done());
        ++problems;
    }
    // forward full scan
    std::vector<ScanTuple> tl;
    status rc = yk::scan<char>(storage, "", scan_endpoint::INF, "", scan_endpoint::INF, tl, nullptr, 0, false);
    if (rc != status::OK && !(rc == status::OK_ROOT_IS_NULL && model.empty())) {
        rep.violation("coherence:full-scan-status", "full scan returned " + st(rc), "{}");
        ++problems;
    }
    bool scan_same = tl.size() == model.size();
    if (scan_same) {
        auto it = model.begin();
        for (auto& t : tl) {
            if (std::get<0>(t) != it->first || std::get<2>(t) != it->second.size() ||
                (std::get<2>(t) != 0 && (std::get<1>(t) == nullptr || memcmp(std::get<1>(t), it->second.data(), it->second.size()) != 0))) {
                scan_same = false;
                break;
            }
            ++it;
        }
    }
    if (!scan_same) {
        JObj d;
        d.num("scan_keys", tl.size()).num("model_keys", model.size());
        std::string first_diff;
        auto it = model.begin();
        for (std::size_t i = 0; i < tl.size() && it != model.end(); ++i, ++it) {
            if (std::get<0>(tl[i]) != it->first) {
                d.str("scan_key", hex(std::get<0>(tl[i]))).str("model_key", hex(it->first)).num("at", i);
                break;
            }
        }
        rep.violation("coherence:full-scan-differs-from-model", "forward full scan differs from the model", d.done());
        ++problems;
    }
    // point lookups
    for (auto& [k, v] : model) {
        std::pair<char*, std::size_t> o;
        status g = yget(storage, k, o);
        if (g != status::OK || o.second != v.size() || (o.second != 0 && (o.first == nullptr || memcmp(o.first, v.data(), v.size()) != 0))) {
            JObj d;
            d.str("key", hex(k)).str("status", st(g)).num("len", o.second).num("want_len", v.size());
            rep.violation("coherence:point-lookup-differs-from-model", "get of a key present in the model", d.done());
            ++problems;
            break;
        }
    }
    // backward cursor
    if (check_backward) {
        std::vector<CursorItem> items;
        status crc = cursor_collect(storage, "", scan_endpoint::INF, "", scan_endpoint::INF, true, items);
        bool bsame = crc == status::OK_SCAN_END && items.size() == model.size();
        std::string missing;
        if (bsame || crc == status::OK_SCAN_END) {
            auto it = model.rbegin();
            std::size_t i = 0;
            for (; i < items.size() && it != model.rend(); ++i, ++it) {
                if (items[i].key != it->first) {
                    bsame = false;
                    missing = it->first;
                    break;
                }
            }
            if (bsame && it != model.rend()) {
                bsame = false;
                missing = it->first;
            }
        }
        if (!bsame) {
            JObj d;
            d.num("cursor_keys", items.size()).num("model_keys", model.size()).str("status", st(crc)).str("first_missing_or_different", hex(missing));
            // classify: the known shape is "key contains an aligned 8x0xFF slice followed by more bytes"
            bool ff_class = false;
            for (std::size_t off = 0; off + 8 < missing.size(); off += 8) {
                if (missing.compare(off, 8, std::string(8, '\xff')) == 0) { ff_class = true; }
            }
            rep.violation(ff_class ? "coherence:backward-cursor-skips-key-after-ff-slice"
                                   : "coherence:backward-cursor-differs-from-model",
                          "reversed backward iscan differs from the model", d.done());
            ++problems;
        }
    }
    if (out_walk != nullptr) { *out_walk = std::move(wr); }
    return problems;
}

inline void drain_alloc_problems(Report& rep) {
    for (auto& p : alloc::take_problems()) { rep.violation("alloc:" + p.key, "allocation registry", p.detail); }
}

} // namespace vf
