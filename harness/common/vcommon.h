// Shared utilities for all yakushima verification harnesses:
// PRNG, hex/JSON helpers, the result/violation reporting protocol.
//
// Protocol (stdout, one JSON object per line, parsed by /verif/vcheck):
//   VVIOL {"property":..,"key":..,"what":..,"detail":{..}}     a violation witness
//   VRESULT {"property":..,"mode":..,"evaluations":..,...}     end-of-run summary
// Exit status of a harness: 0 = ran to the end (violations, if any, are in
// the VVIOL lines), 3 = inconclusive (monitor saw too little), anything else
// = crash/abort (the driver classifies sanitizer output).
#pragma once

#include <algorithm>
#include <atomic>
#include <cinttypes>
#include <chrono>
#include <cstdint>
#include <cstdio>
#include <cstdlib>
#include <cstring>
#include <map>
#include <mutex>
#include <set>
#include <sstream>
#include <string>
#include <string_view>
#include <unordered_set>
#include <vector>

namespace vf {

// ---------------------------------------------------------------- PRNG
struct Rng {
    uint64_t s;
    explicit Rng(uint64_t seed = 1) : s(seed * 0x9E3779B97F4A7C15ULL + 0x1234567ULL) {
        // scramble the seed through the output function first: with s = seed * increment the streams of
        // consecutive seeds would be copies of each other shifted by one draw
        uint64_t a = next();
        uint64_t b = next();
        s = a ^ (b << 1) ^ (seed * 0xD6E8FEB86659FD93ULL);
        next();
    }
    uint64_t next() { // splitmix64
        uint64_t z = (s += 0x9E3779B97F4A7C15ULL);
        z = (z ^ (z >> 30)) * 0xBF58476D1CE4E5B9ULL;
        z = (z ^ (z >> 27)) * 0x94D049BB133111EBULL;
        return z ^ (z >> 31);
    }
    // uniform in [0,n)
    uint64_t below(uint64_t n) { return n == 0 ? 0 : next() % n; }
    // uniform in [lo,hi]
    uint64_t range(uint64_t lo, uint64_t hi) { return lo + below(hi - lo + 1); }
    bool chance(unsigned num, unsigned den) { return below(den) < num; }
    template<class T>
    const T& pick(const std::vector<T>& v) {
        return v[below(v.size())];
    }
};

inline uint64_t mix64(uint64_t a, uint64_t b) {
    uint64_t z = a * 0x9E3779B97F4A7C15ULL ^ (b + 0x7F4A7C15ULL + (a << 6) + (a >> 2));
    z = (z ^ (z >> 30)) * 0xBF58476D1CE4E5B9ULL;
    z = (z ^ (z >> 27)) * 0x94D049BB133111EBULL;
    return z ^ (z >> 31);
}

inline uint64_t hash_bytes(std::string_view sv, uint64_t seed = 0) {
    uint64_t h = 0xcbf29ce484222325ULL ^ seed;
    for (unsigned char c : sv) {
        h ^= c;
        h *= 0x100000001b3ULL;
    }
    return mix64(h, sv.size());
}

// ---------------------------------------------------------------- text helpers
inline std::string hex(std::string_view sv, std::size_t max_bytes = 48) {
    static const char* d = "0123456789abcdef";
    std::string out;
    std::size_t n = std::min(sv.size(), max_bytes);
    out.reserve(n * 2 + 16);
    for (std::size_t i = 0; i < n; ++i) {
        auto c = static_cast<unsigned char>(sv[i]);
        out.push_back(d[c >> 4]);
        out.push_back(d[c & 15]);
    }
    if (sv.size() > max_bytes) { out += "..(" + std::to_string(sv.size()) + "B)"; }
    return out;
}

inline std::string jesc(std::string_view s) {
    std::string o;
    o.reserve(s.size() + 2);
    o.push_back('"');
    for (unsigned char c : s) {
        switch (c) {
            case '"': o += "\\\""; break;
            case '\\': o += "\\\\"; break;
            case '\n': o += "\\n"; break;
            case '\t': o += "\\t"; break;
            case '\r': o += "\\r"; break;
            default:
                if (c < 0x20 || c >= 0x7f) {
                    char b[8];
                    snprintf(b, sizeof b, "\\u%04x", c);
                    o += b;
                } else {
                    o.push_back(static_cast<char>(c));
                }
        }
    }
    o.push_back('"');
    return o;
}

// Minimal JSON object builder (values are already-encoded JSON fragments).
struct JObj {
    std::string body;
    JObj& raw(std::string_view k, std::string_view json) {
        if (!body.empty()) { body += ","; }
        body += jesc(k);
        body += ":";
        body += json;
        return *this;
    }
    JObj& str(std::string_view k, std::string_view v) { return raw(k, jesc(v)); }
    JObj& num(std::string_view k, uint64_t v) { return raw(k, std::to_string(v)); }
    JObj& snum(std::string_view k, int64_t v) { return raw(k, std::to_string(v)); }
    JObj& flt(std::string_view k, double v) {
        char b[64];
        snprintf(b, sizeof b, "%.6g", v);
        return raw(k, b);
    }
    JObj& boolean(std::string_view k, bool v) { return raw(k, v ? "true" : "false"); }
    [[nodiscard]] std::string done() const { return "{" + body + "}"; }
};

inline std::string jarr(const std::vector<std::string>& items) {
    std::string o = "[";
    for (std::size_t i = 0; i < items.size(); ++i) {
        if (i != 0U) { o += ","; }
        o += items[i];
    }
    return o + "]";
}

inline double now_s() {
    using namespace std::chrono;
    return duration<double>(steady_clock::now().time_since_epoch()).count();
}

// ---------------------------------------------------------------- reporting
// Thread-safe accumulator for one harness run.
class Report {
public:
    Report(std::string prop, std::string mode, uint64_t seed)
        : prop_(std::move(prop)), mode_(std::move(mode)), seed_(seed), t0_(now_s()) {}

    void count(const std::string& name, uint64_t n = 1) {
        std::lock_guard<std::mutex> g(mu_);
        counters_[name] += n;
    }
    void maxc(const std::string& name, uint64_t v) {
        std::lock_guard<std::mutex> g(mu_);
        auto& c = counters_[name];
        if (v > c) { c = v; }
    }
    uint64_t get(const std::string& name) {
        std::lock_guard<std::mutex> g(mu_);
        auto it = counters_.find(name);
        return it == counters_.end() ? 0 : it->second;
    }
    void eval(uint64_t n = 1) { evaluations_.fetch_add(n, std::memory_order_relaxed); }
    // a distinct non-trivial case, identified by a hash of its class
    void distinct(uint64_t h) {
        std::lock_guard<std::mutex> g(mu_);
        distinct_.insert(h);
    }
    void sample(const std::string& json, std::size_t cap = 6) {
        std::lock_guard<std::mutex> g(mu_);
        if (samples_.size() < cap) { samples_.push_back(json); }
    }
    void set_rule(const std::string& r) { rule_ = r; }
    void set_exhaustive(bool e) { exhaustive_ = e; }
    void note(const std::string& k, const std::string& json) {
        std::lock_guard<std::mutex> g(mu_);
        notes_[k] = json;
    }

    // A violation: key must be stable (no addresses, seeds, counters).
    // progress-only runs (C09 on a harness written for another property): results are not judged here, only
    // whether every call returns; what the oracles would have said is counted, not reported
    void mute_result_oracles(bool on) { muted_ = on; }
    void violation(const std::string& key, const std::string& what, const std::string& detail_json) {
        if (muted_) {
            count("result_differences_not_judged_by_this_run");
            return;
        }
        std::lock_guard<std::mutex> g(mu_);
        auto& n = viol_count_[key];
        ++n;
        ++violations_;
        if (n <= 3) { // print the first few witnesses per key
            JObj o;
            o.str("property", prop_).str("key", key).str("what", what).num("seed", seed_).str("mode", mode_).raw("detail", detail_json);
            printf("VVIOL %s\n", o.done().c_str());
            fflush(stdout);
        }
    }
    void inconclusive(const std::string& why) {
        std::lock_guard<std::mutex> g(mu_);
        inconclusive_.push_back(why);
    }
    uint64_t violations() const { return violations_; }

    // prints the VRESULT line and returns the process exit code
    int finish() {
        std::lock_guard<std::mutex> g(mu_);
        JObj o;
        o.str("property", prop_).str("mode", mode_).num("seed", seed_);
        o.num("evaluations", evaluations_.load());
        o.num("distinct_nontrivial", distinct_.size());
        o.str("rule", rule_);
        o.boolean("exhaustive", exhaustive_);
        o.raw("samples", jarr(samples_));
        JObj c;
        for (auto& [k, v] : counters_) { c.num(k, v); }
        o.raw("counters", c.done());
        JObj n;
        for (auto& [k, v] : notes_) { n.raw(k, v); }
        o.raw("notes", n.done());
        JObj vc;
        for (auto& [k, v] : viol_count_) { vc.num(k, v); }
        o.raw("violation_keys", vc.done());
        o.num("violations", violations_);
        std::vector<std::string> inc;
        for (auto& s : inconclusive_) { inc.push_back(jesc(s)); }
        o.raw("inconclusive", jarr(inc));
        o.flt("wall_s", now_s() - t0_);
        printf("VRESULT %s\n", o.done().c_str());
        fflush(stdout);
        if (!inconclusive_.empty() && violations_ == 0) { return 3; }
        return 0;
    }

private:
    std::string prop_, mode_;
    uint64_t seed_;
    double t0_;
    std::mutex mu_;
    std::map<std::string, uint64_t> counters_;
    std::atomic<uint64_t> evaluations_{0};
    std::unordered_set<uint64_t> distinct_;
    std::vector<std::string> samples_;
    std::string rule_;
    bool exhaustive_{false};
    std::map<std::string, std::string> notes_;
    std::map<std::string, uint64_t> viol_count_;
    bool muted_{false};
    uint64_t violations_{0};
    std::vector<std::string> inconclusive_;
};

// ---------------------------------------------------------------- argument parsing
struct Args {
    std::map<std::string, std::string> kv;
    Args(int argc, char** argv) {
        for (int i = 1; i < argc; ++i) {
            std::string a = argv[i];
            if (a.rfind("--", 0) == 0) {
                auto eq = a.find('=');
                if (eq != std::string::npos) {
                    kv[a.substr(2, eq - 2)] = a.substr(eq + 1);
                } else if (i + 1 < argc && std::string(argv[i + 1]).rfind("--", 0) != 0) {
                    kv[a.substr(2)] = argv[++i];
                } else {
                    kv[a.substr(2)] = "1";
                }
            }
        }
    }
    [[nodiscard]] std::string str(const std::string& k, const std::string& d = "") const {
        auto it = kv.find(k);
        return it == kv.end() ? d : it->second;
    }
    [[nodiscard]] uint64_t num(const std::string& k, uint64_t d) const {
        auto it = kv.find(k);
        return it == kv.end() ? d : strtoull(it->second.c_str(), nullptr, 10);
    }
    [[nodiscard]] bool has(const std::string& k) const { return kv.count(k) != 0; }
};

} // namespace vf
