// M5: read-only structural walker, run at quiescent points only.
// Compiled with -fno-access-control so that it can read private members
// without adding accessors to the library.
#pragma once

#include <map>
#include <string>
#include <vector>

#include "allocreg.h"
#include "kvs.h"
#include "vcommon.h"

namespace vf {

struct WalkEntry {
    std::string key;
    void* body;        // value body pointer (or the inline value itself)
    std::size_t len;   // value length as the library reports it
    bool out_of_line;
};

struct LevelCensus {
    std::size_t nodes{0};
    std::size_t reserved{0};
    std::size_t slots{0}; // occupied border slots + interior children at this level
};

struct WalkResult {
    std::vector<std::pair<std::string, std::string>> errors; // (stable key, detail json)
    std::vector<WalkEntry> entries;                          // in-order over the whole storage
    std::vector<LevelCensus> census;                         // by mem_usage level
    std::map<yakushima::border_node*, uint64_t> border_versions;
    std::map<yakushima::border_node*, int> border_layer;
    std::size_t n_border{0}, n_interior{0}, n_layers{0}, max_depth{0}, max_layer{0};
    std::size_t occupancy[16]{};
    bool root_deleted_empty{false};
    [[nodiscard]] bool ok() const { return errors.empty(); }
    [[nodiscard]] uint64_t shape_signature() const {
        uint64_t h = mix64(n_layers > 4 ? 4 : n_layers, max_depth);
        h = mix64(h, n_border > 64 ? 64 : (n_border > 16 ? 16 + n_border / 16 : n_border));
        h = mix64(h, n_interior > 16 ? 16 : n_interior);
        h = mix64(h, max_layer > 4 ? 4 : max_layer);
        return h;
    }
    [[nodiscard]] std::string shape_json() const {
        JObj o;
        o.num("borders", n_border).num("interiors", n_interior).num("layers", n_layers).num("max_depth", max_depth).num("max_layer", max_layer).num("keys", entries.size());
        return o.done();
    }
};

class Walker {
public:
    using base_node = yakushima::base_node;
    using border_node = yakushima::border_node;
    using interior_node = yakushima::interior_node;
    using key_slice_type = yakushima::key_slice_type;
    using key_length_type = yakushima::key_length_type;

    struct Bound {
        bool present{false};
        std::string bytes; // up to 8 bytes
        bool link{false};
    };

    explicit Walker(bool check_registry) : check_registry_(check_registry && alloc::mode() == alloc::Mode::FULL) {}

    WalkResult walk(yakushima::tree_instance* ti) {
        res_ = WalkResult{};
        if (ti->root_lock_.load()) { err("root-lock-held", "{}"); }
        base_node* root = ti->root_;
        if (root == nullptr) { return std::move(res_); }
        walk_layer(root, "", 0, 0, nullptr);
        return std::move(res_);
    }

    // reference order on (bytes, link) pairs: bytewise, proper prefix first,
    // a link sorts after the 8-byte key with the same slice, two links with the same slice are equal
    static int ref_cmp(const std::string& a, bool alink, const std::string& b, bool blink) {
        int c = a.compare(b);
        if (c != 0) { return c < 0 ? -1 : 1; }
        if (alink == blink) { return 0; }
        return alink ? 1 : -1;
    }

private:
    bool check_registry_;
    WalkResult res_;

    void err(const std::string& key, const std::string& detail) {
        if (res_.errors.size() < 32) { res_.errors.emplace_back(key, detail); }
    }

    static std::string slice_bytes(key_slice_type ks, key_length_type kl) {
        std::size_t n = kl > 8 ? 8 : kl;
        return std::string(reinterpret_cast<const char*>(&ks), n); // NOLINT
    }

    void check_version_clean(base_node* n, const char* what) {
        auto v = n->get_version();
        if (v.get_locked()) { err(std::string("node-left-locked:") + what, "{}"); }
        if (v.get_inserting_deleting()) { err(std::string("node-left-dirty-insert:") + what, "{}"); }
        if (v.get_splitting()) { err(std::string("node-left-dirty-split:") + what, "{}"); }
    }

    void check_live(base_node* n, const char* what) {
        if (!check_registry_) { return; }
        alloc::Block b{};
        if (!alloc::resolve(n, b) || !b.is_node || b.base != n) {
            err(std::string("reachable-node-not-live:") + what, "{}");
        }
    }

    void census_at(std::size_t level) {
        if (res_.census.size() <= level) { res_.census.resize(level + 1); }
    }

    void walk_layer(base_node* root, const std::string& prefix, std::size_t level, std::size_t layer,
                    border_node* parent_border) {
        ++res_.n_layers;
        res_.max_layer = std::max(res_.max_layer, layer);
        if (!root->get_version().get_root()) { err("layer-root-without-root-bit", JObj().num("layer", layer).done()); }
        if (root->parent_ != parent_border) { err("layer-root-parent-mismatch", JObj().num("layer", layer).done()); }
        std::vector<border_node*> leaves;
        walk_node(root, prefix, level, layer, Bound{}, Bound{}, leaves, true, 0);
        // leaf chain
        for (std::size_t i = 0; i < leaves.size(); ++i) {
            border_node* expect_next = i + 1 < leaves.size() ? leaves[i + 1] : nullptr;
            border_node* expect_prev = i > 0 ? leaves[i - 1] : nullptr;
            if (leaves[i]->next_ != expect_next) {
                err("leaf-chain-next-mismatch", JObj().num("layer", layer).num("leaf", i).num("leaves", leaves.size()).done());
            }
            if (leaves[i]->prev_ != expect_prev) {
                err("leaf-chain-prev-mismatch", JObj().num("layer", layer).num("leaf", i).num("leaves", leaves.size()).done());
            }
        }
    }

    void check_bounds(const std::string& b, bool link, const Bound& lo, const Bound& hi, const char* what) {
        if (lo.present && ref_cmp(b, link, lo.bytes, lo.link) < 0) {
            err(std::string("entry-below-separator:") + what, JObj().str("entry", hex(b)).str("lo", hex(lo.bytes)).done());
        }
        if (hi.present && ref_cmp(b, link, hi.bytes, hi.link) >= 0) {
            err(std::string("entry-not-below-separator:") + what, JObj().str("entry", hex(b)).str("hi", hex(hi.bytes)).done());
        }
    }

    void walk_node(base_node* n, const std::string& prefix, std::size_t level, std::size_t layer, const Bound& lo,
                   const Bound& hi, std::vector<border_node*>& leaves, bool is_layer_root, std::size_t depth) {
        census_at(level);
        res_.max_depth = std::max(res_.max_depth, depth);
        auto v = n->get_version();
        if (!is_layer_root && v.get_root()) { err("non-root-node-has-root-bit", "{}"); }
        if (v.get_border()) {
            auto* b = dynamic_cast<border_node*>(n);
            if (b == nullptr) {
                err("border-bit-on-non-border", "{}");
                return;
            }
            walk_border(b, prefix, level, layer, lo, hi, is_layer_root);
            leaves.push_back(b);
            return;
        }
        auto* in = dynamic_cast<interior_node*>(n);
        if (in == nullptr) {
            err("interior-bit-on-non-interior", "{}");
            return;
        }
        ++res_.n_interior;
        check_version_clean(n, "interior");
        check_live(n, "interior");
        if (v.get_deleted()) { err("reachable-interior-marked-deleted", "{}"); }
        std::size_t nk = in->n_keys_.load();
        ++res_.census[level].nodes;
        res_.census[level].reserved += sizeof(interior_node);
        res_.census[level].slots += nk + 1;
        if (nk == 0 || nk > yakushima::key_slice_length) {
            err("interior-bad-n-keys", JObj().num("n_keys", nk).done());
            return;
        }
        std::vector<Bound> seps(nk);
        for (std::size_t i = 0; i < nk; ++i) {
            key_length_type kl = n->key_length_[i];
            seps[i].present = true;
            seps[i].bytes = slice_bytes(n->key_slice_[i], kl);
            seps[i].link = kl > 8;
            if (kl > 9) { err("interior-key-length-out-of-range", "{}"); }
            if (i > 0 && ref_cmp(seps[i - 1].bytes, seps[i - 1].link, seps[i].bytes, seps[i].link) >= 0) {
                err("interior-separators-not-ascending", JObj().num("i", i).str("a", hex(seps[i - 1].bytes)).str("b", hex(seps[i].bytes)).done());
            }
            check_bounds(seps[i].bytes, seps[i].link, lo, Bound{}, "interior-sep");
            if (hi.present && ref_cmp(seps[i].bytes, seps[i].link, hi.bytes, hi.link) > 0) {
                err("interior-separator-above-parent-bound", "{}");
            }
        }
        for (std::size_t i = nk + 1; i < interior_node::child_length; ++i) {
            if (in->children[i] != nullptr) { err("interior-stale-child-pointer", JObj().num("i", i).num("n_keys", nk).done()); }
        }
        for (std::size_t i = 0; i <= nk; ++i) {
            base_node* c = in->children[i];
            if (c == nullptr) {
                err("interior-null-child", JObj().num("i", i).num("n_keys", nk).done());
                continue;
            }
            if (c->parent_ != n) { err("child-parent-pointer-mismatch", JObj().num("i", i).done()); }
            Bound clo = i == 0 ? lo : seps[i - 1];
            Bound chi = i == nk ? hi : seps[i];
            walk_node(c, prefix, level + 1, layer, clo, chi, leaves, false, depth + 1);
        }
    }

    void walk_border(border_node* b, const std::string& prefix, std::size_t level, std::size_t layer, const Bound& lo,
                     const Bound& hi, bool is_layer_root) {
        ++res_.n_border;
        check_version_clean(b, "border");
        check_live(b, "border");
        auto v = b->get_version();
        uint64_t vw = 0;
        memcpy(&vw, &v, sizeof vw);
        res_.border_versions[b] = vw;
        res_.border_layer[b] = static_cast<int>(layer);
        uint64_t perm = b->permutation_.body_.load();
        std::size_t cnk = perm & 0xf;
        ++res_.census[level].nodes;
        res_.census[level].reserved += sizeof(border_node);
        res_.census[level].slots += cnk;
        ++res_.occupancy[cnk > 15 ? 15 : cnk];
        if (cnk > yakushima::key_slice_length) {
            err("permutation-count-out-of-range", JObj().num("cnk", cnk).done());
            return;
        }
        if (v.get_deleted()) {
            if (!(is_layer_root && layer == 0 && cnk == 0)) {
                err("reachable-border-marked-deleted", JObj().num("layer", layer).num("cnk", cnk).boolean("layer_root", is_layer_root).done());
            } else {
                res_.root_deleted_empty = true;
            }
        }
        if (cnk == 0 && !(is_layer_root && layer == 0)) {
            err("empty-border-reachable", JObj().num("layer", layer).boolean("layer_root", is_layer_root).done());
        }
        bool used[16] = {};
        std::string prev_b;
        bool prev_link = false;
        for (std::size_t r = 0; r < cnk; ++r) {
            std::size_t idx = (perm >> (4 * (r + 1))) & 0xf;
            if (idx >= yakushima::key_slice_length) {
                err("permutation-slot-out-of-range", JObj().num("slot", idx).done());
                continue;
            }
            if (used[idx]) { err("permutation-duplicate-slot", JObj().num("slot", idx).num("cnk", cnk).done()); }
            used[idx] = true;
            key_slice_type ks = b->key_slice_[idx];
            key_length_type kl = b->key_length_[idx];
            if (kl > 9) {
                err("border-key-length-out-of-range", JObj().num("kl", kl).done());
                continue;
            }
            std::string sb = slice_bytes(ks, kl);
            bool link = kl > 8;
            // padding bytes of a short slice must be zero (lookups compare all 8 bytes)
            if (kl < 8) {
                key_slice_type mask = kl == 0 ? ~key_slice_type{0} : (~key_slice_type{0} << (8 * kl));
                if ((ks & mask) != 0) { err("slice-padding-not-zero", JObj().num("kl", kl).done()); }
            }
            if (r > 0) {
                int c = ref_cmp(prev_b, prev_link, sb, link);
                if (c == 0) { err("border-duplicate-entry", JObj().str("entry", hex(sb)).boolean("link", link).done()); }
                if (c > 0) { err("border-entries-not-sorted", JObj().str("a", hex(prev_b)).str("b", hex(sb)).done()); }
            }
            check_bounds(sb, link, lo, hi, "border");
            prev_b = sb;
            prev_link = link;
            uintptr_t word = b->lv_[idx].child_or_v_;
            bool is_link_word = (word >> 63) != 0;
            if (link) {
                if (!is_link_word) {
                    err("link-entry-without-child", JObj().str("entry", hex(sb)).done());
                    continue;
                }
                base_node* child = b->lv_[idx].get_next_layer();
                if (child == nullptr) {
                    err("link-entry-null-child", "{}");
                    continue;
                }
                walk_layer(child, prefix + sb, level + 1, layer + 1, b);
            } else {
                if (is_link_word) {
                    err("value-entry-holds-link", JObj().str("entry", hex(sb)).done());
                    continue;
                }
                if (word == (uintptr_t{1} << 62)) {
                    err("value-entry-slot-cleared", JObj().str("entry", hex(sb)).done());
                    continue;
                }
                auto* vp = reinterpret_cast<yakushima::value*>(word); // NOLINT
                WalkEntry e;
                e.key = prefix + sb;
                e.out_of_line = yakushima::value::is_value_ptr(vp);
                e.body = yakushima::value::get_body(vp);
                e.len = yakushima::value::get_len(vp);
                if (e.out_of_line) {
                    auto [base, total, al] = yakushima::value::get_gc_info(vp);
                    res_.census[level].reserved += total;
                    if (check_registry_) {
                        alloc::Block blk{};
                        if (!alloc::resolve(base, blk) || blk.base != base) {
                            err("reachable-value-not-live", JObj().str("key", hex(e.key)).done());
                        } else if (blk.size != total || blk.align != static_cast<std::size_t>(al)) {
                            err("value-header-disagrees-with-allocation",
                                JObj().num("alloc_size", blk.size).num("hdr_size", total).num("alloc_align", blk.align).num("hdr_align", static_cast<std::size_t>(al)).done());
                        }
                    }
                }
                res_.entries.push_back(std::move(e));
            }
        }
    }
};

} // namespace vf
