// M2: adversarial key / value generators shared by the sequential oracles.
#pragma once

#include "vcommon.h"

namespace vf {

struct KeyGenCfg {
    std::size_t max_len = 40;       // typical maximum
    unsigned long_key_permille = 5; // chance of a 200..300 byte key
    unsigned huge_key_permille = 0; // chance of a multi-KiB key
    std::size_t huge_max = 30 * 1024;
};

class KeyGen {
public:
    KeyGen(Rng& r, KeyGenCfg cfg = {}) : r_(r), cfg_(cfg) {}

    unsigned char abyte() {
        static const unsigned char special[] = {0x00, 0x00, 0x01, 0x7f, 0x80, 0xfe, 0xff, 0xff, 'A', 'A', 'B'};
        if (r_.chance(3, 4)) { return special[r_.below(sizeof special)]; }
        return static_cast<unsigned char>(r_.below(256));
    }

    std::size_t alen() {
        static const std::size_t special[] = {0, 1, 2, 7, 8, 8, 9, 9, 15, 16, 16, 17, 23, 24, 25, 32, 33};
        std::size_t l = 0;
        if (r_.chance(cfg_.huge_key_permille, 1000)) {
            l = r_.range(1024, cfg_.huge_max);
            return l;
        }
        if (r_.chance(cfg_.long_key_permille, 1000)) {
            static const std::size_t lg[] = {255, 256, 257, 264, 272, 200, 300};
            return lg[r_.below(7)];
        }
        if (r_.chance(2, 3)) {
            l = special[r_.below(sizeof special / sizeof special[0])];
        } else {
            l = r_.below(cfg_.max_len + 1);
        }
        return std::min(l, std::max<std::size_t>(cfg_.max_len, 33));
    }

    std::string fresh() {
        std::size_t l = alen();
        std::string k(l, '\0');
        // few distinct 8-byte slices so that prefixes are shared often
        for (std::size_t off = 0; off < l; off += 8) {
            std::size_t n = std::min<std::size_t>(8, l - off);
            if (r_.chance(1, 2) && !slices_.empty()) {
                const std::string& s = slices_[r_.below(slices_.size())];
                memcpy(&k[off], s.data(), n);
            } else {
                std::string s(8, '\0');
                unsigned char fillc = abyte();
                for (auto& c : s) { c = static_cast<char>(r_.chance(1, 2) ? fillc : abyte()); }
                if (slices_.size() < 12) { slices_.push_back(s); }
                memcpy(&k[off], s.data(), n);
            }
        }
        return k;
    }

    // derive from an existing key: extend, truncate, bump last byte, cut at 8-byte boundary
    std::string derive(const std::string& base) {
        std::string k = base;
        switch (r_.below(8)) {
            case 0: k.push_back('\0'); break;
            case 1: k.push_back(static_cast<char>(abyte())); break;
            case 2:
                if (!k.empty()) { k.pop_back(); }
                break;
            case 3:
                if (!k.empty()) { k.back() = static_cast<char>(static_cast<unsigned char>(k.back()) + 1); }
                break;
            case 4:
                if (!k.empty()) { k.back() = static_cast<char>(static_cast<unsigned char>(k.back()) - 1); }
                break;
            case 5: k.resize(k.size() / 8 * 8); break;
            case 6: {
                std::size_t n = r_.range(1, 9);
                for (std::size_t i = 0; i < n; ++i) { k.push_back(static_cast<char>(abyte())); }
                break;
            }
            default:
                if (k.size() > 8) { k.resize(r_.below(k.size())); }
                break;
        }
        return k;
    }

    // pool = keys currently of interest (typically the model's keys)
    std::string next(const std::vector<std::string>& pool) {
        if (!pool.empty() && r_.chance(1, 2)) { return derive(pool[r_.below(pool.size())]); }
        return fresh();
    }

    // a dense family under one prefix: n keys "prefix + 1..2 bytes"
    std::vector<std::string> dense_family(std::size_t n, std::size_t prefix_len) {
        std::string p(prefix_len, '\0');
        unsigned char c = abyte();
        for (auto& ch : p) { ch = static_cast<char>(r_.chance(3, 4) ? c : abyte()); }
        std::vector<std::string> out;
        out.reserve(n);
        for (std::size_t i = 0; i < n; ++i) {
            std::string k = p;
            if (n <= 256) {
                k.push_back(static_cast<char>(i));
            } else {
                k.push_back(static_cast<char>(i >> 8));
                k.push_back(static_cast<char>(i & 0xff));
            }
            out.push_back(k);
        }
        return out;
    }

    std::string value(std::size_t max_len = 64) {
        static const std::size_t special[] = {0, 1, 7, 8, 9, 16, 31, 32, 33, 100};
        std::size_t l = r_.chance(1, 2) ? special[r_.below(10)] : r_.below(max_len + 1);
        std::string v(l, '\0');
        uint64_t x = r_.next();
        for (std::size_t i = 0; i < l; ++i) { v[i] = static_cast<char>((x >> ((i % 8) * 8)) + i); }
        return v;
    }

private:
    Rng& r_;
    KeyGenCfg cfg_;
    std::vector<std::string> slices_;
};

} // namespace vf
