// Dispatcher of the node-level harnesses (C17 version word, C18 comparisons, C19 permutation).
#include <glog/logging.h>

#include "ykw.h"

int run_version(const vf::Args&);
int run_compare(const vf::Args&);
int run_perm(const vf::Args&);

int main(int argc, char** argv) {
    google::InitGoogleLogging(argv[0]);
    FLAGS_logtostderr = true;
    vf::Args args(argc, argv);
    vf::setup_alloc(vf::alloc::Mode::COUNT);
    vf::ctl::install();
    std::string mode = args.str("mode");
    if (mode == "version") { return run_version(args); }
    if (mode == "compare") { return run_compare(args); }
    if (mode == "perm") { return run_perm(args); }
    fprintf(stderr, "unknown --mode %s\n", mode.c_str());
    return 2;
}
