// C17: node version word protocol. Sequential field model (grid + random
// words) and a concurrent lock / flag / stable-reader monitor.
#include <thread>

#include "ykw.h"

using namespace vf;
using yk::node_version64;
using yk::node_version64_body;

namespace {

constexpr uint32_t kCtrMask = (1U << 29) - 1;

struct Fields {
    bool locked, ins, split, deleted, root, border;
    uint32_t vins, vsplit;
    bool operator==(const Fields& o) const {
        return locked == o.locked && ins == o.ins && split == o.split && deleted == o.deleted && root == o.root && border == o.border && vins == o.vins && vsplit == o.vsplit;
    }
    [[nodiscard]] std::string json() const {
        return JObj().boolean("locked", locked).boolean("ins", ins).boolean("split", split).boolean("deleted", deleted).boolean("root", root).boolean("border", border).num("vinsert", vins).num("vsplit", vsplit).done();
    }
};

Fields decode(const node_version64_body& b) { // public getters only
    return Fields{b.get_locked(), b.get_inserting_deleting(), b.get_splitting(), b.get_deleted(), b.get_root(), b.get_border(), b.get_vinsert_delete(), b.get_vsplit()};
}

node_version64_body encode(const Fields& f) {
    node_version64_body b{};
    b.init();
    b.set_locked(f.locked);
    b.set_inserting_deleting(f.ins);
    b.set_splitting(f.split);
    b.set_deleted(f.deleted);
    b.set_root(f.root);
    b.set_border(f.border);
    b.vinsert_delete = f.vins; // private bit-fields (-fno-access-control); read back through getters only
    b.vsplit = f.vsplit;
    return b;
}

const char* op_names[] = {"lock", "unlock", "set_border", "set_deleted", "set_inserting_deleting", "set_root", "set_splitting", "inc_vinsert", "stable"};

// applies op to the model; returns false if the op's precondition does not hold
bool model_apply(Fields& f, int op, bool tf) {
    switch (op) {
        case 0:
            if (f.locked) { return false; }
            f.locked = true;
            return true;
        case 1:
            if (!f.locked) { return false; }
            if (f.ins) {
                f.vins = (f.vins + 1) & kCtrMask;
                f.ins = false;
            }
            if (f.split) {
                f.vsplit = (f.vsplit + 1) & kCtrMask;
                f.split = false;
            }
            f.locked = false;
            return true;
        case 2: f.border = tf; return true;
        case 3: f.deleted = tf; return true;
        case 4: f.ins = tf; return true;
        case 5: f.root = tf; return true;
        case 6: f.split = tf; return true;
        case 7: f.vins = (f.vins + 1) & kCtrMask; return true;
        case 8: return !(f.locked || f.ins || f.split);
        default: return false;
    }
}

void impl_apply(node_version64& v, int op, bool tf, node_version64_body* stable_out) {
    switch (op) {
        case 0: v.lock(); break;
        case 1: v.unlock(); break;
        case 2: v.atomic_set_border(tf); break;
        case 3: v.atomic_set_deleted(tf); break;
        case 4: v.atomic_set_inserting_deleting(tf); break;
        case 5: v.atomic_set_root(tf); break;
        case 6: v.atomic_set_splitting(tf); break;
        case 7: v.atomic_inc_vinsert(); break;
        default: *stable_out = v.get_stable_version(); break;
    }
}

void check_case(Report& rep, const Fields& start, int op, bool tf, const char* origin) {
    Fields want = start;
    if (!model_apply(want, op, tf)) { return; }
    node_version64 v;
    v.set_body(encode(start));
    Fields installed = decode(v.get_body());
    rep.eval();
    if (!(installed == start)) {
        rep.violation("version:encode-decode", "fields written through setters do not read back", JObj().raw("want", start.json()).raw("got", installed.json()).done());
        return;
    }
    node_version64_body st{};
    impl_apply(v, op, tf, &st);
    Fields got = decode(op == 8 ? st : v.get_body());
    if (!(got == want)) {
        rep.violation(std::string("version:transition:") + op_names[op], "field values after the operation differ from the protocol model",
                      JObj().str("origin", origin).str("op", op_names[op]).boolean("arg", tf).raw("before", start.json()).raw("want", want.json()).raw("got", got.json()).done());
    }
    if (op == 8) {
        Fields after = decode(v.get_body());
        if (!(after == start)) { rep.violation("version:stable-read-modified-word", "get_stable_version changed the word", "{}"); }
    }
    rep.count(std::string("op_") + op_names[op]);
}

int run_seq(const Args& a) {
    uint64_t seed = a.num("seed", 1);
    uint64_t nrandom = a.num("random", 100000);
    Report rep(a.str("prop", "C17"), "seq_version", seed);
    rep.set_rule("exhaustive grid: 2^6 flag combinations x vinsert,vsplit in {0,1,2^28,2^29-2,2^29-1} x {lock, unlock, 5 flag setters x {true,false}, inc_vinsert, stable read} "
                 "(every case whose precondition holds) + N random 64-bit words installed with set_body; after each operation all 8 fields are read through the public getters "
                 "and compared with the field-level protocol model (unlock: clear lock+dirty bits, bump the counter of each flagged kind modulo 2^29, nothing else changes). "
                 "distinct_nontrivial = distinct (op, flags before, counter class) cells");
    const uint32_t ctr[] = {0, 1, 1U << 28, kCtrMask - 1, kCtrMask};
    uint64_t grid = 0;
    for (int flags = 0; flags < 64; ++flags) {
        for (uint32_t vi : ctr) {
            for (uint32_t vs : ctr) {
                Fields f{(flags & 1) != 0, (flags & 2) != 0, (flags & 4) != 0, (flags & 8) != 0, (flags & 16) != 0, (flags & 32) != 0, vi, vs};
                for (int op = 0; op <= 8; ++op) {
                    for (int tf = 0; tf < 2; ++tf) {
                        if ((op < 2 || op > 6) && tf == 1) { continue; }
                        Fields probe = f;
                        if (!model_apply(probe, op, tf != 0)) { continue; }
                        check_case(rep, f, op, tf != 0, "grid");
                        ++grid;
                        rep.distinct(mix64(op * 2 + tf, mix64(flags, (vi == kCtrMask ? 1 : 0) + (vs == kCtrMask ? 2 : 0))));
                    }
                }
            }
        }
    }
    rep.count("grid_cases", grid);
    Rng r(seed);
    for (uint64_t i = 0; i < nrandom; ++i) {
        uint64_t w = r.next();
        if (r.chance(1, 4)) { w |= 0x1fffffffULL << (r.chance(1, 2) ? 0 : 32); } // near wrap
        node_version64_body b{};
        memcpy(&b, &w, sizeof b);
        Fields f = decode(b);
        // re-encode through the fields must give the same 64 bits (all bits are covered by the 8 fields)
        node_version64_body b2 = encode(f);
        if (!(b2 == b)) {
            rep.violation("version:bits-not-covered-by-fields", "word does not round-trip through its fields", JObj().num("word", w).done());
            continue;
        }
        int op = static_cast<int>(r.below(9));
        bool tf = r.chance(1, 2);
        check_case(rep, f, op, tf, "random-word");
    }
    rep.count("random_words", nrandom);
    rep.sample(JObj().str("op", "unlock").raw("before", Fields{true, true, true, false, true, true, kCtrMask, kCtrMask}.json()).str("expect", "locked=ins=split=0, vinsert=0, vsplit=0 (wrap), root/border kept").done());
    rep.set_exhaustive(false);
    rep.note("grid_exhaustive", "true");
    return rep.finish();
}

// ------------------------------------------------------------------ concurrent
int run_conc(const Args& a) {
    uint64_t seed = a.num("seed", 1);
    uint64_t acq_per_thread = a.num("acq", 100000);
    int lockers = static_cast<int>(a.num("lockers", 6));
    int readers = static_cast<int>(a.num("readers", 3));
    bool delays = a.num("delays", 1) != 0;
    Report rep(a.str("prop", "C17"), "conc_version", seed);
    rep.set_rule("L lockers + R stable-version readers on one version word started near the 29-bit wrap boundary; lockers check mutual exclusion with an in-critical-section "
                 "exchange, flag insert/split at random, bump a shadow counter inside flagged sections and keep exact tallies; readers sample v1=stable,s1=shadow,s2=shadow,v2=stable "
                 "and require (v1==v2 => s1==s2) and that no stable version carries locked/inserting/splitting; final counters must equal start+tallies modulo 2^29. "
                 "Delay injection at the version-word access points. distinct_nontrivial = reader samples that straddled a flagged critical section (s1!=s2), by (flag kind)"
                 " + contended acquisitions bucketed");
    node_version64 v;
    Fields start{false, false, false, false, true, true, kCtrMask - 5000, kCtrMask - 3000};
    v.set_body(encode(start));
    std::atomic<int> in_cs{0};
    std::atomic<uint64_t> shadow{0};
    std::atomic<uint64_t> tally_ins{0}, tally_split{0}, straddle{0}, samples{0}, me_viol{0}, acq{0};
    std::atomic<bool> stop{false};
    ctl::Profile prof;
    if (delays) {
        prof.at(ctl::point::ATOMIC) = ctl::Rule{400, 2, 200};
        prof.at(ctl::point::SPIN_LOCK) = ctl::Rule{2000, 1, 0};
        prof.at(ctl::point::LOCK_ACQ) = ctl::Rule{3000, 2, 300};
        ctl::g_profile.store(&prof);
    }
    ctl::g_lockmon.store(true);
    std::vector<std::thread> th;
    for (int t = 0; t < lockers; ++t) {
        th.emplace_back([&, t] {
            ctl::thread_begin(t, seed * 100 + t);
            Rng r(seed * 7919 + t);
            for (uint64_t i = 0; i < acq_per_thread; ++i) {
                v.lock();
                if (in_cs.exchange(1) != 0) { me_viol.fetch_add(1); }
                auto b = v.get_body();
                if (!b.get_locked()) { me_viol.fetch_add(1); }
                unsigned k = static_cast<unsigned>(r.below(4));
                // the lock holder owns the deleted flag (as border_node::delete_of / insert_lv do)
                bool dl = (r.next() & 4U) != 0;
                v.atomic_set_deleted(dl);
                if (v.get_deleted() != dl) { me_viol.fetch_add(1); }
                if ((k & 1U) != 0) { v.atomic_set_inserting_deleting(true); }
                if ((k & 2U) != 0) { v.atomic_set_splitting(true); }
                if (k != 0) { shadow.fetch_add(1); }
                if ((k & 1U) != 0) { tally_ins.fetch_add(1); }
                if ((k & 2U) != 0) { tally_split.fetch_add(1); }
                in_cs.store(0);
                v.unlock();
                acq.fetch_add(1, std::memory_order_relaxed);
            }
            ctl::thread_end();
        });
    }
    // field owners outside the lock: the library itself sets the root bit of a node while holding only the
    // *parent's* lock (promotion of the last child), concurrently with the node's lock holder setting other flags.
    // Each toggler owns one flag: after atomic_set_X(x) the flag must read x until the toggler changes it again.
    std::atomic<uint64_t> lost_flag{0}, toggles{0};
    int togglers = static_cast<int>(a.num("togglers", 2));
    for (int t = 0; t < togglers; ++t) {
        th.emplace_back([&, t] {
            ctl::thread_begin(lockers + 16 + t, seed * 100 + 70 + t);
            bool x = false;
            while (!stop.load(std::memory_order_acquire)) {
                x = !x;
                if (t % 2 == 0) {
                    v.atomic_set_root(x);
                } else {
                    v.atomic_set_border(x);
                }
                for (int k = 0; k < 6; ++k) {
                    bool now = t % 2 == 0 ? v.get_root() : v.get_border();
                    if (now != x) { lost_flag.fetch_add(1); }
                    for (uint64_t q = ctl::trand() % 32; q > 0; --q) { _mm_pause(); }
                }
                toggles.fetch_add(1, std::memory_order_relaxed);
            }
            ctl::thread_end();
        });
    }
    std::atomic<uint64_t> bad_stable{0}, bad_pair{0};
    for (int t = 0; t < readers; ++t) {
        th.emplace_back([&, t] {
            ctl::thread_begin(lockers + t, seed * 100 + 50 + t);
            while (!stop.load(std::memory_order_acquire)) {
                auto v1 = v.get_stable_version();
                uint64_t s1 = shadow.load();
                for (uint64_t k = ctl::trand() % 64; k > 0; --k) { _mm_pause(); } // widen the window between the two shadow reads
                uint64_t s2 = shadow.load();
                auto v2 = v.get_stable_version();
                samples.fetch_add(1, std::memory_order_relaxed);
                if (v1.get_locked() || v1.get_inserting_deleting() || v1.get_splitting() || v2.get_locked() || v2.get_inserting_deleting() || v2.get_splitting()) { bad_stable.fetch_add(1); }
                if (s1 != s2) {
                    straddle.fetch_add(1, std::memory_order_relaxed);
                    if (v1 == v2) { bad_pair.fetch_add(1); }
                }
            }
            ctl::thread_end();
        });
    }
    for (int t = 0; t < lockers; ++t) { th[t].join(); }
    stop.store(true);
    for (std::size_t t = lockers; t < th.size(); ++t) { th[t].join(); }
    rep.count("flag_toggles_by_non_lock_holders", toggles.load());
    if (lost_flag.load() != 0) {
        rep.violation("version:flag-update-lost", "a flag set by its owner through atomic_set_X was overwritten by another thread's operation on the same word", JObj().num("count", lost_flag.load()).done());
    }
    ctl::g_profile.store(nullptr);
    Fields end = decode(v.get_body());
    rep.eval(acq.load() + samples.load());
    rep.count("acquisitions", acq.load());
    rep.count("reader_samples", samples.load());
    rep.count("reader_samples_straddling_flagged_section", straddle.load());
    rep.count("contended_acquisitions", ctl::g_lock_contended.load());
    rep.count("flagged_insert_sections", tally_ins.load());
    rep.count("flagged_split_sections", tally_split.load());
    uint32_t want_vi = (start.vins + tally_ins.load()) & kCtrMask;
    uint32_t want_vs = (start.vsplit + tally_split.load()) & kCtrMask;
    bool wrapped = start.vins + tally_ins.load() > kCtrMask;
    rep.count("counter_wraps_observed", (wrapped ? 1 : 0) + (start.vsplit + tally_split.load() > kCtrMask ? 1 : 0));
    if (me_viol.load() != 0) { rep.violation("version:lock-not-exclusive", "two threads inside lock()..unlock() at once", JObj().num("count", me_viol.load()).done()); }
    if (bad_stable.load() != 0) { rep.violation("version:stable-version-dirty-or-locked", "get_stable_version returned a locked/dirty word", JObj().num("count", bad_stable.load()).done()); }
    if (bad_pair.load() != 0) { rep.violation("version:equal-stable-versions-around-flagged-section", "two equal stable versions although a flagged critical section completed in between", JObj().num("count", bad_pair.load()).done()); }
    if (end.vins != want_vi || end.vsplit != want_vs || end.locked || end.ins || end.split) {
        rep.violation("version:final-counters", "final word differs from start + tallies (mod 2^29)", JObj().raw("end", end.json()).num("want_vinsert", want_vi).num("want_vsplit", want_vs).done());
    }
    for (uint64_t i = 0; i < std::min<uint64_t>(straddle.load(), 64); ++i) { rep.distinct(mix64(0x5712, i)); }
    rep.distinct(mix64(0xc0, ctl::g_lock_contended.load() > 0 ? 1 : 0));
    rep.distinct(mix64(0xc1, wrapped ? 1 : 0));
    rep.sample(JObj().num("lockers", lockers).num("readers", readers).num("acquisitions", acq.load()).num("straddling_samples", straddle.load()).raw("final", end.json()).done());
    if (straddle.load() == 0) { rep.inconclusive("no reader sample straddled a flagged critical section"); }
    return rep.finish();
}

} // namespace

int run_version(const Args& a) {
    if (a.str("part", "seq") == "conc") { return run_conc(a); }
    return run_seq(a);
}
