// C18: every comparison site on (8-byte slice, length) pairs must implement
// bytewise lexicographic order (proper prefix first; a link = "continues" sorts
// after the 8-byte key with the same slice). Sites are driven directly on
// hand-built nodes.
#include "ykw.h"

using namespace vf;
using yk::base_node;
using yk::border_node;
using yk::interior_node;
using yk::key_length_type;
using yk::key_slice_type;
using key_tuple = yk::base_node::key_tuple;

namespace {

struct Ent {
    std::string bytes; // 0..8 bytes
    bool link;
    [[nodiscard]] key_slice_type slice() const {
        key_slice_type s = 0;
        memcpy(&s, bytes.data(), bytes.size());
        return s;
    }
    [[nodiscard]] key_length_type len() const { return link ? 9 : static_cast<key_length_type>(bytes.size()); }
    [[nodiscard]] key_tuple kt() const { return key_tuple{slice(), len()}; }
    [[nodiscard]] std::string json() const { return JObj().str("bytes", hex(bytes)).boolean("link", link).done(); }
};

int ref(const Ent& a, const Ent& b) { return Walker::ref_cmp(a.bytes, a.link, b.bytes, b.link); }

std::vector<Ent> reduced_universe() {
    std::vector<Ent> u;
    for (std::size_t l = 0; l <= 8; ++l) {
        for (unsigned m = 0; m < (1U << l); ++m) {
            std::string s(l, '\0');
            for (std::size_t i = 0; i < l; ++i) { s[i] = (m >> i) & 1U ? '\xff' : '\0'; }
            u.push_back(Ent{s, false});
            if (l == 8) { u.push_back(Ent{s, true}); }
        }
    }
    return u;
}

Ent random_ent(Rng& r, const std::vector<Ent>& near) {
    static const unsigned char sp[] = {0x00, 0x01, 0x7f, 0x80, 0xfe, 0xff, 'A'};
    if (!near.empty() && r.chance(1, 2)) {
        Ent e = near[r.below(near.size())];
        switch (r.below(5)) {
            case 0: e.link = e.bytes.size() == 8 && !e.link; break;
            case 1:
                if (!e.bytes.empty()) { e.bytes.pop_back(); }
                e.link = false;
                break;
            case 2:
                if (e.bytes.size() < 8) { e.bytes.push_back(static_cast<char>(sp[r.below(7)])); }
                break;
            case 3:
                if (!e.bytes.empty()) { e.bytes[r.below(e.bytes.size())] = static_cast<char>(sp[r.below(7)]); }
                break;
            default: break;
        }
        if (e.bytes.size() < 8) { e.link = false; }
        return e;
    }
    std::size_t l = r.chance(1, 2) ? 8 : r.below(9);
    std::string s(l, '\0');
    for (auto& c : s) { c = static_cast<char>(r.chance(2, 3) ? sp[r.below(7)] : r.below(256)); }
    return Ent{s, l == 8 && r.chance(1, 3)};
}

// a set of <= n entries, distinct in the reference order
std::vector<Ent> random_set(Rng& r, std::size_t n) {
    std::vector<Ent> s;
    for (std::size_t tries = 0; s.size() < n && tries < n * 8; ++tries) {
        Ent e = random_ent(r, s);
        bool dup = false;
        for (auto& o : s) { dup = dup || ref(o, e) == 0; }
        if (!dup) { s.push_back(e); }
    }
    return s;
}

void fill_border(border_node& b, const std::vector<Ent>& set, Rng& r) {
    b.init_border();
    // slots assigned in random order, rank from the reference order
    std::vector<std::size_t> slots;
    for (std::size_t i = 0; i < 15; ++i) { slots.push_back(i); }
    for (std::size_t i = slots.size(); i > 1; --i) { std::swap(slots[i - 1], slots[r.below(i)]); }
    std::vector<Ent> placed;
    for (std::size_t i = 0; i < set.size(); ++i) {
        std::size_t rank = 0;
        for (auto& p : placed) { rank += ref(p, set[i]) < 0 ? 1 : 0; }
        b.set_key_slice_at(slots[i], set[i].slice());
        b.set_key_length_at(slots[i], set[i].len());
        b.get_permutation().insert_rank(rank, slots[i]);
        placed.push_back(set[i]);
    }
}

} // namespace

int run_compare(const Args& a) {
    uint64_t seed = a.num("seed", 1);
    uint64_t nrandom = a.num("random", 200000);
    uint64_t nsets = a.num("sets", 20000);
    bool full = a.num("full", 0) != 0;
    Report rep(a.str("prop", "C18"), "seq_compare", seed);
    rep.set_rule("reference = std::string order on the denoted bytes with link-after-8-byte-key. Sites: key_tuple operators (exhaustive over all ordered pairs of the reduced universe: "
                 "byte strings of length 0..8 over {00,ff} + links over the same slices = 767 entries; all triples over a 96-entry sub-universe + random triples for transitivity); "
                 "border_node::compute_rank_if_insert / get_lv_of / get_lv_of_without_lock, permutation::rearrange, interior_node::get_child_of / insert on hand-built nodes "
                 "filled from random entry sets with forced near-misses (equal slice/different length, trailing zeros, 0x7f/0x80, link vs 8-byte key); border_split side decision on a full "
                 "hand-built root. distinct_nontrivial = distinct (site, relation class) cells where the two entries share the full slice or one is a prefix of the other");
    Rng r(seed);
    auto U = reduced_universe();
    rep.count("reduced_universe_size", U.size());
    auto rel_class = [](const Ent& x, const Ent& y) -> uint64_t {
        bool same_slice = x.slice() == y.slice();
        bool prefix = x.bytes.size() != y.bytes.size() && x.bytes.compare(0, std::min(x.bytes.size(), y.bytes.size()), y.bytes, 0, std::min(x.bytes.size(), y.bytes.size())) == 0;
        return (same_slice ? 1 : 0) + (prefix ? 2 : 0) + (x.link ? 4 : 0) + (y.link ? 8 : 0) + 16 * std::min<std::size_t>(x.bytes.size(), 8) + 256 * std::min<std::size_t>(y.bytes.size(), 8);
    };
    // ---- site 1: key_tuple operators, exhaustive pairs
    uint64_t pairs = 0;
    for (auto& x : U) {
        for (auto& y : U) {
            int c = ref(x, y);
            key_tuple kx = x.kt();
            key_tuple ky = y.kt();
            bool ok = (kx < ky) == (c < 0) && (kx > ky) == (c > 0) && (kx <= ky) == (c <= 0) && (kx >= ky) == (c >= 0);
            // operator== is identity of (slice,length); two links with one slice are the same tuple
            bool ident = x.slice() == y.slice() && x.len() == y.len();
            ok = ok && (kx == ky) == ident && (kx != ky) == !ident && (ident == (c == 0));
            ++pairs;
            if (!ok) { rep.violation("compare:key_tuple-operator", "key_tuple comparison disagrees with bytewise order", JObj().raw("a", x.json()).raw("b", y.json()).snum("ref", c).boolean("lt", kx < ky).boolean("gt", kx > ky).done()); }
            if (c != 0 && (x.slice() == y.slice() || rel_class(x, y) & 2U)) { rep.distinct(mix64(1, rel_class(x, y))); }
        }
    }
    rep.eval(pairs);
    rep.count("key_tuple_pairs_exhaustive", pairs);
    // key_tuple(string_view) construction
    for (auto& x : U) {
        std::string k = x.bytes + (x.link ? "tail" : "");
        key_tuple kt{std::string_view{k}};
        if (kt.get_key_slice() != x.slice() || kt.get_key_length() != x.len()) { rep.violation("compare:key_tuple-from-string", "key_tuple(string_view) builds a wrong tuple", x.json()); }
    }
    // ... for every remaining length of the key (the remainder of a long key is what the cursor builds its endpoint tuples from)
    {
        uint64_t built = 0;
        for (std::size_t i = 0; i < U.size(); i += 37) {
            const Ent& x = U[i];
            if (x.bytes.size() != 8) { continue; }
            for (std::size_t tail = 1; tail <= 600; tail += (tail < 20 || (tail >= 240 && tail <= 280) || (tail >= 500 && tail <= 530) ? 1 : 13)) {
                std::string k = x.bytes + std::string(tail, 't');
                key_tuple kt{std::string_view{k}};
                ++built;
                if (kt.get_key_slice() != x.slice() || kt.get_key_length() != 9) {
                    rep.violation("compare:key_tuple-from-string", "key_tuple(string_view) of a key that continues in the next layer is not (slice, 9)",
                                  JObj().str("slice", hex(x.bytes)).num("key_bytes", k.size()).num("length_built", kt.get_key_length()).done());
                    break;
                }
            }
        }
        rep.count("key_tuples_built_from_long_keys", built);
    }
    // transitivity / antisymmetry on triples
    {
        std::vector<Ent> sub;
        for (std::size_t i = 0; i < U.size() && sub.size() < 96; i += U.size() / 96) { sub.push_back(U[i]); }
        uint64_t triples = 0;
        auto tri = [&](const Ent& x, const Ent& y, const Ent& z) {
            ++triples;
            key_tuple kx = x.kt(), ky = y.kt(), kz = z.kt();
            if (kx < ky && ky < kz && !(kx < kz)) { rep.violation("compare:key_tuple-not-transitive", "a<b, b<c but not a<c", JObj().raw("a", x.json()).raw("b", y.json()).raw("c", z.json()).done()); }
            if (kx < ky && ky < kx) { rep.violation("compare:key_tuple-not-antisymmetric", "a<b and b<a", JObj().raw("a", x.json()).raw("b", y.json()).done()); }
        };
        for (auto& x : sub) {
            for (auto& y : sub) {
                for (auto& z : sub) { tri(x, y, z); }
            }
        }
        std::vector<Ent> none;
        for (uint64_t i = 0; i < nrandom; ++i) {
            Ent x = random_ent(r, none);
            std::vector<Ent> nx{x};
            Ent y = random_ent(r, nx);
            nx.push_back(y);
            Ent z = random_ent(r, nx);
            tri(x, y, z);
            int c = ref(x, y);
            if ((x.kt() < y.kt()) != (c < 0) || (x.kt() > y.kt()) != (c > 0)) {
                rep.violation("compare:key_tuple-operator", "key_tuple comparison disagrees with bytewise order (random pair)", JObj().raw("a", x.json()).raw("b", y.json()).done());
            }
        }
        rep.eval(triples);
        rep.count("key_tuple_triples", triples);
    }
    // ---- sites 2..4 on hand-built nodes
    std::vector<Ent> probes_all = U;
    for (uint64_t s = 0; s < nsets; ++s) {
        std::size_t n = r.chance(1, 3) ? 15 : r.range(1, 15);
        std::vector<Ent> set = full && s < U.size() ? std::vector<Ent>{} : random_set(r, n);
        if (set.empty()) { set = random_set(r, n); }
        // border: rank + lookup
        border_node b;
        fill_border(b, set, r);
        std::size_t nprobe = 24;
        for (std::size_t p = 0; p < nprobe; ++p) {
            Ent q = p < 8 ? probes_all[r.below(probes_all.size())] : random_ent(r, set);
            std::size_t smaller = 0;
            const Ent* equal = nullptr;
            for (auto& e : set) {
                int c = ref(e, q);
                smaller += c < 0 ? 1 : 0;
                if (c == 0) { equal = &e; }
            }
            rep.eval();
            yk::node_version64_body sv{};
            std::size_t pos = 99;
            yk::link_or_value* lv = b.get_lv_of(q.slice(), q.len(), sv, pos);
            yk::link_or_value* lv2 = b.get_lv_of_without_lock(q.slice(), q.len());
            if (equal != nullptr) {
                bool ok = lv != nullptr && lv == lv2 && pos < 15 && b.get_key_slice_at(pos) == equal->slice() && b.get_key_length_at(pos) == equal->len() && lv == b.get_lv_at(pos);
                if (!ok) { rep.violation("compare:border-lookup-misses-equal-entry", "get_lv_of did not find the stored equal entry", JObj().raw("probe", q.json()).num("entries", set.size()).done()); }
                rep.count("border_lookups_hit");
            } else {
                if (lv != nullptr || lv2 != nullptr) { rep.violation("compare:border-lookup-false-hit", "get_lv_of found an entry for an absent key", JObj().raw("probe", q.json()).num("entries", set.size()).done()); }
                if (set.size() < 15 || true) {
                    std::size_t rank = b.compute_rank_if_insert(q.slice(), q.len());
                    if (rank != smaller) {
                        rep.violation("compare:border-rank", "compute_rank_if_insert differs from the number of smaller entries", JObj().raw("probe", q.json()).num("got", rank).num("want", smaller).num("entries", set.size()).done());
                    }
                }
                rep.count("border_rank_probes");
            }
            for (auto& e : set) {
                if (e.slice() == q.slice() && ref(e, q) != 0) { rep.distinct(mix64(2, rel_class(e, q))); }
            }
        }
        // permutation::rearrange
        {
            border_node b2;
            b2.init_border();
            std::vector<Ent> sh = set;
            for (std::size_t i = sh.size(); i > 1; --i) { std::swap(sh[i - 1], sh[r.below(i)]); }
            for (std::size_t i = 0; i < sh.size(); ++i) {
                b2.set_key_slice_at(i, sh[i].slice());
                b2.set_key_length_at(i, sh[i].len());
            }
            b2.get_permutation().set_cnk(static_cast<uint8_t>(sh.size()));
            b2.permutation_rearrange();
            bool ok = b2.get_permutation_cnk() == sh.size();
            for (std::size_t rk = 0; ok && rk + 1 < sh.size(); ++rk) {
                std::size_t i0 = b2.get_permutation().get_index_of_rank(rk);
                std::size_t i1 = b2.get_permutation().get_index_of_rank(rk + 1);
                ok = i0 < sh.size() && i1 < sh.size() && ref(sh[i0], sh[i1]) < 0;
            }
            rep.eval();
            rep.count("rearrange_cases");
            if (!ok) { rep.violation("compare:permutation-rearrange-order", "rearrange did not sort the entries in bytewise order", JObj().num("entries", sh.size()).done()); }
        }
        // interior routing + insert
        if (set.size() >= 2) {
            std::vector<Ent> seps = set;
            // separators in an interior are never the empty key in practice; keep them non-empty
            seps.erase(std::remove_if(seps.begin(), seps.end(), [](const Ent& e) { return e.bytes.empty(); }), seps.end());
            if (seps.size() >= 2) {
                static border_node kids[17];
                static bool kids_init = false;
                if (!kids_init) {
                    for (auto& k : kids) { k.init_border(); }
                    kids_init = true;
                }
                interior_node in;
                in.init_interior();
                // first separator + two children by hand, the rest through insert() in random order
                std::vector<Ent> sorted = seps;
                std::sort(sorted.begin(), sorted.end(), [](const Ent& x, const Ent& y) { return ref(x, y) < 0; });
                std::size_t first = r.below(sorted.size());
                in.set_key(0, sorted[first].slice(), sorted[first].len());
                in.set_child_at(0, &kids[16]);       // everything below the first separator
                in.set_child_at(1, &kids[first]);    // child "owned" by separator `first`
                in.n_keys_increment();
                std::vector<std::size_t> order;
                for (std::size_t i = 0; i < sorted.size(); ++i) {
                    if (i != first) { order.push_back(i); }
                }
                for (std::size_t i = order.size(); i > 1; --i) { std::swap(order[i - 1], order[r.below(i)]); }
                for (std::size_t i : order) { in.insert(&kids[i], std::make_pair(sorted[i].slice(), sorted[i].len())); }
                in.version_.init(); // insert() leaves the inserting flag set (normally cleared by unlock)
                in.set_version_border(false);
                bool ok = in.get_n_keys() == sorted.size();
                for (std::size_t i = 0; ok && i < sorted.size(); ++i) {
                    ok = in.get_key_slice_at(i) == sorted[i].slice() && in.get_key_length_at(i) == sorted[i].len() && in.get_child_at(i + 1) == &kids[i];
                }
                ok = ok && in.get_child_at(0) == &kids[16];
                rep.eval();
                rep.count("interior_insert_cases");
                if (!ok) {
                    rep.violation("compare:interior-insert-order", "interior_node::insert left separators/children out of bytewise order", JObj().num("separators", sorted.size()).done());
                } else {
                    for (std::size_t p = 0; p < 16; ++p) {
                        Ent q = random_ent(r, sorted);
                        std::size_t le = 0; // # separators <= q  (q >= sep goes right)
                        for (auto& sp : sorted) { le += ref(sp, q) <= 0 ? 1 : 0; }
                        yk::node_version64_body v = in.get_stable_version();
                        base_node* c = in.get_child_of(q.slice(), q.len(), v);
                        base_node* want = le == 0 ? &kids[16] : &kids[le - 1];
                        rep.eval();
                        rep.count("interior_route_probes");
                        if (c != want) {
                            rep.violation("compare:interior-routing", "get_child_of routed a key to the wrong child", JObj().raw("probe", q.json()).num("separators", sorted.size()).num("want_child", le).done());
                        }
                        for (auto& sp : sorted) {
                            if (sp.slice() == q.slice() && ref(sp, q) != 0) { rep.distinct(mix64(3, rel_class(sp, q))); }
                        }
                    }
                }
            }
        }
    }
    // ---- site 5: border split side decision on a full hand-built root
    uint64_t nsplit = a.num("splits", 3000);
    for (uint64_t s = 0; s < nsplit; ++s) {
        std::vector<Ent> set = random_set(r, 16);
        if (set.size() < 16) { continue; }
        Ent q = set.back();
        set.pop_back();
        yk::tree_instance ti;
        auto* b = new border_node();
        b->init_border();
        std::vector<Ent> sorted = set;
        std::sort(sorted.begin(), sorted.end(), [](const Ent& x, const Ent& y) { return ref(x, y) < 0; });
        std::vector<std::string> fullkeys;
        for (std::size_t i = 0; i < sorted.size(); ++i) {
            std::string k = sorted[i].bytes + (sorted[i].link ? "T" : "");
            fullkeys.push_back(k);
            char vv = 'v';
            yk::value* val = yk::value::create_value<false>(&vv, 1, static_cast<yk::value_align_type>(1));
            b->insert_lv_at(b->get_permutation().get_empty_slot(), k, val, nullptr, i);
        }
        ti.store_root_ptr(b);
        std::size_t rank = 0;
        for (auto& e : sorted) { rank += ref(e, q) < 0 ? 1 : 0; }
        std::string qk = q.bytes + (q.link ? "T" : "");
        char vv = 'q';
        yk::value* val = yk::value::create_value<false>(&vv, 1, static_cast<yk::value_align_type>(1));
        b->lock();
        b->set_version_inserting_deleting(true);
        yk::border_split(&ti, b, qk, val, nullptr, nullptr, rank);
        fullkeys.push_back(qk);
        std::sort(fullkeys.begin(), fullkeys.end());
        Walker w(false);
        WalkResult wr = w.walk(&ti);
        rep.eval();
        rep.count("border_split_cases");
        rep.count(rank < 8 ? "split_key_goes_left_or_pivot" : "split_key_goes_right");
        bool same = wr.entries.size() == fullkeys.size();
        for (std::size_t i = 0; same && i < fullkeys.size(); ++i) { same = wr.entries[i].key == fullkeys[i]; }
        if (!wr.ok() || !same) {
            JObj d;
            d.raw("new_entry", q.json()).num("rank", rank).num("walk_keys", wr.entries.size());
            if (!wr.errors.empty()) { d.str("first_error", wr.errors[0].first); }
            rep.violation("compare:border-split-side", "after a split of a full border the halves are not sorted / bounded by the separator / complete", d.done());
        }
        for (auto& e : sorted) {
            if (e.slice() == q.slice()) { rep.distinct(mix64(5, rel_class(e, q))); }
        }
        base_node* root = ti.load_root_ptr();
        root->destroy();
        delete root; // NOLINT
    }
    rep.sample(JObj().str("site", "key_tuple::operator<").raw("a", Ent{std::string(8, '\xff'), false}.json()).raw("b", Ent{std::string(8, '\xff'), true}.json()).str("expect", "a<b (8-byte key before the link with the same slice)").done());
    rep.sample(JObj().str("site", "border_node::compute_rank_if_insert").raw("probe", Ent{std::string("\0\0", 2), false}.json()).str("expect", "rank = number of stored entries smaller in bytewise order, e.g. after 00 and before 0000 00").done());
    rep.note("key_tuple_pairs_exhaustive_over_reduced_universe", "true");
    return rep.finish();
}
