// C19: the leaf permutation word vs a vector model; atomic publication.
#include <thread>

#include "ykw.h"

using namespace vf;
using yk::permutation;

namespace {

bool matches(const permutation& p, const std::vector<uint8_t>& model) {
    if (p.get_cnk() != model.size()) { return false; }
    for (std::size_t i = 0; i < model.size(); ++i) {
        if (p.get_index_of_rank(i) != model[i]) { return false; }
    }
    if (!model.empty() && p.get_lowest_key_pos() != model[0]) { return false; }
    return true;
}

uint64_t encode(const std::vector<uint8_t>& model) {
    uint64_t b = model.size();
    for (std::size_t i = 0; i < model.size(); ++i) { b |= static_cast<uint64_t>(model[i]) << (4 * (i + 1)); }
    return b;
}

std::string mjson(const std::vector<uint8_t>& m) {
    std::vector<std::string> v;
    for (auto x : m) { v.push_back(std::to_string(x)); }
    return jarr(v);
}

struct Checker {
    Report& rep;
    uint64_t ops{0};

    // all operations applicable to the state `model`
    void check_state(const std::vector<uint8_t>& model) {
        std::size_t n = model.size();
        bool used[15] = {};
        for (auto s : model) { used[s] = true; }
        permutation base(encode(model));
        if (!matches(base, model)) {
            rep.violation("perm:decode", "accessors do not decode the word as (count, slots in rank order)", JObj().raw("model", mjson(model)).done());
            return;
        }
        // free slot
        if (n < 15) {
            std::size_t fs = base.get_empty_slot();
            ++ops;
            if (fs >= 15 || used[fs]) { rep.violation("perm:empty-slot-in-use", "get_empty_slot returned a slot that is in use", JObj().raw("model", mjson(model)).num("slot", fs).done()); }
        }
        // insert at every rank, every free slot
        if (n < 15) {
            for (std::size_t rank = 0; rank <= n; ++rank) {
                for (uint8_t pos = 0; pos < 15; ++pos) {
                    if (used[pos]) { continue; }
                    permutation p(encode(model));
                    p.insert_rank(rank, pos);
                    std::vector<uint8_t> want = model;
                    want.insert(want.begin() + static_cast<long>(rank), pos);
                    ++ops;
                    rep.distinct(mix64(1, mix64(n, rank)));
                    if (!matches(p, want) || p.get_body() != encode(want)) {
                        rep.violation("perm:insert_rank", "insert_rank result differs from the model (later ranks shift by one, new slot at rank)",
                                      JObj().raw("before", mjson(model)).num("rank", rank).num("slot", pos).num("got_word", p.get_body()).num("want_word", encode(want)).done());
                        return;
                    }
                }
            }
        }
        // delete every rank
        for (std::size_t rank = 0; rank < n; ++rank) {
            permutation p(encode(model));
            p.delete_rank(rank);
            std::vector<uint8_t> want = model;
            want.erase(want.begin() + static_cast<long>(rank));
            ++ops;
            rep.distinct(mix64(2, mix64(n, rank)));
            // slots above the count are don't-care for readers, but the property asks for a closed gap: compare the decoded view
            if (!matches(p, want)) {
                rep.violation("perm:delete_rank", "delete_rank result differs from the model (gap closed, count decremented)",
                              JObj().raw("before", mjson(model)).num("rank", rank).num("got_word", p.get_body()).done());
                return;
            }
        }
    }
};

void permute_all(std::vector<uint8_t>& v, std::size_t k, Checker& c) {
    if (k == v.size()) {
        c.check_state(v);
        return;
    }
    for (std::size_t i = k; i < v.size(); ++i) {
        std::swap(v[k], v[i]);
        permute_all(v, k + 1, c);
        std::swap(v[k], v[i]);
    }
}

int run_seq(const Args& a) {
    uint64_t seed = a.num("seed", 1);
    uint64_t nrandom = a.num("random", 3000);
    std::size_t exhaustive_n = a.num("exhaustive_n", 6);
    Report rep(a.str("prop", "C19"), "seq_perm", seed);
    rep.set_rule("states = (count n, n distinct slots in rank order). For every n<=N_EXH: all n! orderings of slot set {0..n-1} and of one random n-subset of 0..14; for n>N_EXH: random "
                 "orderings of random subsets; in every state: get_empty_slot not in use, insert_rank at every rank x every free slot, delete_rank at every rank, each compared "
                 "with a vector model via get_cnk/get_index_of_rank; split_dest(m) identity for m=0..15; set_cnk; rearrange covered by C18. UBSan watches the shifts. "
                 "distinct_nontrivial = distinct (operation, n, rank) cells exercised");
    Rng r(seed);
    Checker c{rep};
    for (std::size_t n = 0; n <= 15; ++n) {
        if (n <= exhaustive_n) {
            std::vector<uint8_t> v;
            for (std::size_t i = 0; i < n; ++i) { v.push_back(static_cast<uint8_t>(i)); }
            permute_all(v, 0, c);
            // a random subset of the 15 slots
            std::vector<uint8_t> all;
            for (uint8_t i = 0; i < 15; ++i) { all.push_back(i); }
            for (std::size_t i = all.size(); i > 1; --i) { std::swap(all[i - 1], all[r.below(i)]); }
            all.resize(n);
            permute_all(all, 0, c);
        }
        for (uint64_t k = 0; k < nrandom; ++k) {
            std::vector<uint8_t> all;
            for (uint8_t i = 0; i < 15; ++i) { all.push_back(i); }
            for (std::size_t i = all.size(); i > 1; --i) { std::swap(all[i - 1], all[r.below(i)]); }
            all.resize(n);
            c.check_state(all);
            if (rep.violations() > 20) { break; }
        }
        rep.count("states_n" + std::to_string(n), 1);
    }
    for (std::size_t m = 0; m <= 15; ++m) {
        permutation p(r.next());
        p.split_dest(m);
        std::vector<uint8_t> want;
        for (std::size_t i = 0; i < m; ++i) { want.push_back(static_cast<uint8_t>(i)); }
        ++c.ops;
        rep.distinct(mix64(3, m));
        if (!matches(p, want)) { rep.violation("perm:split_dest", "split_dest(m) is not the identity on m entries", JObj().num("m", m).num("word", p.get_body()).done()); }
        permutation q(encode(want));
        for (std::size_t k = 0; k <= m; ++k) {
            permutation s(encode(want));
            s.set_cnk(static_cast<uint8_t>(k));
            std::vector<uint8_t> w2(want.begin(), want.begin() + static_cast<long>(k));
            if (!matches(s, w2)) { rep.violation("perm:set_cnk", "set_cnk changed more than the count", JObj().num("m", m).num("k", k).done()); }
        }
        permutation z(r.next());
        z.init();
        if (z.get_cnk() != 0) { rep.violation("perm:init", "init does not give an empty permutation", "{}"); }
    }
    rep.eval(c.ops);
    rep.count("operations", c.ops);
    rep.sample(JObj().raw("before", mjson({3, 0, 7})).str("op", "insert_rank(1, slot 5)").raw("after", mjson({3, 5, 0, 7})).done());
    rep.sample(JObj().raw("before", mjson({3, 5, 0, 7})).str("op", "delete_rank(2)").raw("after", mjson({3, 5, 7})).done());
    rep.note("exhaustive_up_to_n", std::to_string(exhaustive_n));
    return rep.finish();
}

int run_conc(const Args& a) {
    uint64_t seed = a.num("seed", 1);
    uint64_t nops = a.num("ops", 300000);
    int readers = static_cast<int>(a.num("readers", 3));
    Report rep(a.str("prop", "C19"), "conc_perm", seed);
    rep.set_rule("one writer performs random insert_rank/delete_rank on a shared permutation and logs the word after each operation; R readers sample (count_before, word, count_after); "
                 "every sampled word must be one of the logged words of that window (old or new ordering, never a mixture) and must decode to distinct slots. "
                 "distinct_nontrivial = samples whose window contained a publication, bucketed by (count of entries)");
    permutation p;
    p.init();
    std::vector<uint64_t> log(nops + 1);
    log[0] = p.get_body();
    std::atomic<uint64_t> published{1};
    std::atomic<bool> stop{false};
    struct Sample {
        uint64_t c0, w, c1;
    };
    std::vector<std::vector<Sample>> samples(readers);
    std::vector<std::thread> th;
    for (int t = 0; t < readers; ++t) {
        th.emplace_back([&, t] {
            samples[t].reserve(1 << 20);
            while (!stop.load(std::memory_order_acquire)) {
                uint64_t c0 = published.load(std::memory_order_acquire);
                uint64_t w = p.get_body();
                uint64_t c1 = published.load(std::memory_order_acquire);
                if (samples[t].size() < (1U << 22)) { samples[t].push_back(Sample{c0, w, c1}); }
            }
        });
    }
    Rng r(seed);
    std::vector<uint8_t> model;
    for (uint64_t i = 0; i < nops; ++i) {
        bool ins = model.empty() || (model.size() < 15 && r.chance(1, 2));
        if (ins) {
            std::size_t rank = r.below(model.size() + 1);
            std::size_t pos = p.get_empty_slot();
            p.insert_rank(rank, pos);
            model.insert(model.begin() + static_cast<long>(rank), static_cast<uint8_t>(pos));
        } else {
            std::size_t rank = r.below(model.size());
            p.delete_rank(rank);
            model.erase(model.begin() + static_cast<long>(rank));
        }
        log[i + 1] = p.get_body();
        published.store(i + 2, std::memory_order_release);
        if (!matches(p, model)) {
            rep.violation("perm:writer-model-mismatch", "permutation diverged from the model", "{}");
            break;
        }
    }
    stop.store(true);
    for (auto& t : th) { t.join(); }
    uint64_t total = 0, windows = 0, bad = 0;
    for (auto& sv : samples) {
        for (auto& s : sv) {
            ++total;
            // the word sampled between c0 and c1: log[c0-1] .. log[min(c1, nops)]  (log[c1] may have been published but not yet counted)
            uint64_t lo = s.c0 - 1;
            uint64_t hi = std::min<uint64_t>(s.c1, nops);
            bool found = false;
            for (uint64_t j = lo; j <= hi && !found; ++j) { found = log[j] == s.w; }
            if (hi > lo) {
                ++windows;
                rep.distinct(mix64(0x9e, (s.w & 0xf) * 4 + std::min<uint64_t>(hi - lo, 3)));
            }
            if (!found) {
                ++bad;
                if (bad <= 3) {
                    rep.violation("perm:reader-saw-unpublished-word", "a reader observed a word that is neither the old nor the new ordering of any single update in its window",
                                  JObj().num("word", s.w).num("window_lo", lo).num("window_hi", hi).num("log_lo", log[lo]).num("log_hi", log[hi]).done());
                }
            }
        }
    }
    rep.eval(total);
    rep.count("reader_samples", total);
    rep.count("samples_with_publication_in_window", windows);
    rep.count("writer_operations", nops);
    rep.sample(JObj().num("writer_ops", nops).num("reader_samples", total).num("samples_with_publication_in_window", windows).done());
    if (windows == 0) { rep.inconclusive("no sample window contained a publication"); }
    return rep.finish();
}

} // namespace

int run_perm(const Args& a) {
    if (a.str("part", "seq") == "conc") { return run_conc(a); }
    return run_seq(a);
}
