// C12 (concurrent half): conservation between the node reports of concurrent
// inserting puts and the version words of the border nodes.
//
// Every inserting put locks the border it modifies once, marks it "inserting"
// (and "splitting" when it splits) and the unlock advances the insert counter
// (and the split counter) of that word by exactly one. So, over a burst of
// concurrent puts that is bracketed by two quiescent walks, for every border
// that existed before the burst:
//     insert-counter delta == number of puts that reported it as modified
//     split-counter delta  == number of those reports that also name a created node
// A version change that no put reported (a border "keeping its version" is
// what the property promises for every node a put does not report) or a report
// without a change breaks the equality.
#include "conc_common.h"

using namespace vf;

namespace {

yk::node_version64_body body_of(uint64_t w) {
    yk::node_version64_body b; // NOLINT
    memcpy(&b, &w, sizeof w);
    return b;
}

struct PutRep {
    yk::node_version64* modified{nullptr};
    yk::node_version64* created{nullptr};
};

} // namespace

int run_nodeinfo_conc(const Args& a) {
    uint64_t seed = a.num("seed", 1);
    uint64_t rounds = a.num("rounds", 400);
    Report rep(a.str("prop", "C12"), "conc_nodeinfo", seed);
    rep.set_rule("per round: 2..4 threads insert fresh keys that interleave in the same border nodes (prefix of 0/8/16 bytes so the borders sit in layer 0..2; ascending / descending / shuffled), each put with an inserted_node_info (or the legacy "
                 "out-parameter); a further thread only overwrites existing keys; delays at lock/atomic points. The structural walker snapshots address->version word of every border before and after the burst (both quiescent). "
                 "Oracle for every border that existed before the burst: insert-counter delta == number of puts reporting it as modified, split-counter delta == number of those reports naming a created node; every created node "
                 "reported is a new reachable border and is reported once; overwrites report nothing and account for no change. distinct_nontrivial = rounds by (threads, layer, order, #splits>0, #borders touched by >=2 threads)");
    yk::init();
    Rng r(seed);
    std::string storage = "cn";
    uint64_t total_puts = 0, total_splits = 0, shared_borders = 0;
    std::size_t keys_in_storage = 0;
    uint64_t base = 0;
    std::string prefix;
    yk::create_storage(storage);
    for (uint64_t rd = 0; rd < rounds && rep.violations() < 10; ++rd) {
        if (rd % 12 == 0) {
            // fresh storage and prefix: keeps the walks cheap and varies the layer the borders live in
            yk::delete_storage(storage);
            yk::create_storage(storage);
            keys_in_storage = 0;
            base = 100000;
            static const char* prefixes[] = {"", "PREFIX_1", "PREFIX_1PREFIX_2"};
            prefix = prefixes[r.below(3)];
        }
        yk::tree_instance* ti = nullptr;
        yk::find_storage(storage, &ti);
        int T = static_cast<int>(r.range(2, 4));
        int per = static_cast<int>(r.range(6, 40));
        int order = static_cast<int>(r.below(3));
        bool with_overwriter = keys_in_storage > 0 && r.chance(1, 2);
        bool legacy = r.chance(1, 4);
        ctl::Profile prof = make_profile(r, r.chance(1, 3) ? 0 : (r.chance(1, 2) ? 2 : 3));
        ctl::g_profile.store(&prof);
        Walker w(false);
        WalkResult before = w.walk(ti);
        std::vector<std::vector<PutRep>> reps(T);
        std::vector<std::string> bad_status(T + 1);
        uint64_t round_base = base;
        // sometimes go back and fill the gaps of an earlier range: inserts in the middle of full borders
        uint64_t stride = static_cast<uint64_t>(T) * 2;
        run_round(T + (with_overwriter ? 1 : 0), seed * 977 + rd, [&](int tid) {
            Session s;
            s.reenter();
            if (tid == T) {
                // overwrites only: must not change any version
                Rng tr(seed * 31 + rd);
                for (int i = 0; i < per; ++i) {
                    char b[16];
                    snprintf(b, sizeof b, "%08lu", static_cast<unsigned long>(100000 + tr.below(round_base - 100000 + 1) / stride * stride));
                    std::string k = prefix + b;
                    std::pair<char*, std::size_t> g;
                    if (yget(storage, k, g) != status::OK) { continue; }
                    yk::inserted_node_info ini{};
                    std::string v = "overwritten";
                    status st_ = yk::put<char>(s.tok, storage, k, v.data(), v.size(), static_cast<char**>(nullptr), static_cast<yk::value_align_type>(1), false, &ini);
                    if (st_ != status::OK) { bad_status[tid] = st(st_); }
                    g_progress.fetch_add(1, std::memory_order_relaxed);
                }
                s.leave();
                return;
            }
            std::vector<uint64_t> mine;
            for (int i = 0; i < per; ++i) { mine.push_back(round_base + static_cast<uint64_t>(i) * stride + static_cast<uint64_t>(tid) * 2); }
            if (order == 1) { std::reverse(mine.begin(), mine.end()); }
            if (order == 2) {
                Rng tr(seed * 131 + rd * 7 + tid);
                for (std::size_t i = mine.size(); i > 1; --i) { std::swap(mine[i - 1], mine[tr.below(i)]); }
            }
            for (uint64_t n : mine) {
                char b[16];
                snprintf(b, sizeof b, "%08lu", static_cast<unsigned long>(n));
                std::string k = prefix + b;
                std::string v = "v" + std::to_string(n);
                PutRep pr;
                status st_;
                if (legacy) {
                    st_ = yk::put<char>(s.tok, storage, k, v.data(), v.size(), static_cast<char**>(nullptr), static_cast<yk::value_align_type>(1), true, &pr.modified);
                } else {
                    yk::inserted_node_info ini{};
                    st_ = yk::put<char>(s.tok, storage, k, v.data(), v.size(), static_cast<char**>(nullptr), static_cast<yk::value_align_type>(1), true, &ini);
                    pr.modified = ini.modified_nvp;
                    pr.created = ini.created_nvp;
                }
                if (st_ != status::OK) { bad_status[tid] = st(st_); }
                reps[tid].push_back(pr);
                g_progress.fetch_add(1, std::memory_order_relaxed);
            }
            s.leave();
        });
        ctl::g_profile.store(nullptr);
        base += static_cast<uint64_t>(per) * stride;
        keys_in_storage += static_cast<std::size_t>(per) * T;
        WalkResult after = w.walk(ti);
        rep.eval();
        for (auto& [ek, ed] : after.errors) { rep.violation("walker:" + ek, "structure broken after a burst of concurrent inserts", ed); }
        for (auto& bs : bad_status) {
            if (!bs.empty()) { rep.violation("cnodeinfo:put-status", "put of a fresh key / overwrite failed", JObj().str("got", bs).done()); }
        }
        // tally the reports
        std::map<yk::node_version64*, std::pair<uint64_t, uint64_t>> by_mod; // reports, of which with a created node
        std::map<yk::node_version64*, uint64_t> by_created;
        std::map<yk::node_version64*, std::set<int>> touched_by;
        uint64_t nputs = 0, nsplits = 0;
        for (int t = 0; t < T; ++t) {
            for (auto& pr : reps[t]) {
                ++nputs;
                if (pr.modified == nullptr) {
                    rep.violation("cnodeinfo:insert-reported-no-node", "an inserting put reported no modified node", JObj().num("round", rd).boolean("legacy", legacy).done());
                    continue;
                }
                auto& e = by_mod[pr.modified];
                ++e.first;
                touched_by[pr.modified].insert(t);
                if (pr.created != nullptr) {
                    ++e.second;
                    ++by_created[pr.created];
                    ++nsplits;
                }
            }
        }
        total_puts += nputs;
        total_splits += nsplits;
        uint64_t shared = 0;
        for (auto& [p, ts] : touched_by) {
            (void) p;
            if (ts.size() >= 2) { ++shared; }
        }
        shared_borders += shared;
        std::map<yk::node_version64*, yk::border_node*> after_by_vp;
        for (auto& [b, vw] : after.border_versions) {
            (void) vw;
            after_by_vp[b->get_version_ptr()] = b;
        }
        auto ctx = [&]() {
            JObj d;
            d.num("round", rd).num("threads", T).num("per_thread", per).num("order", order).str("prefix", prefix).boolean("legacy_overload", legacy).boolean("overwriter", with_overwriter).num("splits_reported", nsplits);
            return d;
        };
        for (auto& [b, vw0] : before.border_versions) {
            auto it = after.border_versions.find(b);
            if (it == after.border_versions.end()) { continue; } // cannot happen without removes; the walker reports structure problems
            auto b0 = body_of(vw0);
            auto b1 = body_of(it->second);
            uint64_t d_ins = (b1.get_vinsert_delete() - b0.get_vinsert_delete()) & ((1U << 29) - 1);
            uint64_t d_spl = (b1.get_vsplit() - b0.get_vsplit()) & ((1U << 29) - 1);
            auto rit = by_mod.find(b->get_version_ptr());
            uint64_t n_rep = rit == by_mod.end() ? 0 : rit->second.first;
            uint64_t n_rep_split = rit == by_mod.end() ? 0 : rit->second.second;
            if (legacy) {
                // the legacy overload cannot name the created node: only the insert counter is decidable
                n_rep_split = d_spl;
            }
            if (d_ins != n_rep || d_spl != n_rep_split) {
                const char* key = d_ins > n_rep || d_spl > n_rep_split ? "cnodeinfo:version-changed-without-report" : "cnodeinfo:report-without-version-change";
                rep.violation(key, "over a burst of concurrent inserting puts a pre-existing border's version counters do not equal the number of puts that reported it",
                              ctx().num("insert_counter_delta", d_ins).num("reports_as_modified", n_rep).num("split_counter_delta", d_spl).num("reports_with_created_node", n_rep_split)
                                      .num("layer", static_cast<uint64_t>(after.border_layer[b])).done());
            }
        }
        if (!legacy) {
            for (auto& [vp, n] : by_created) {
                auto ait = after_by_vp.find(vp);
                if (ait == after_by_vp.end()) {
                    rep.violation("cnodeinfo:created-node-not-reachable", "created_nvp is not the version word of a reachable border", ctx().done());
                    continue;
                }
                if (before.border_versions.count(ait->second) != 0U) { rep.violation("cnodeinfo:created-node-existed-before", "created_nvp names a border that existed before the burst", ctx().done()); }
                if (n != 1) { rep.violation("cnodeinfo:created-node-reported-twice", "one border reported as created by more than one put", ctx().num("times", n).done()); }
            }
            // every new same-layer border must have been reported as created by somebody (no new layers are made by this key family after the first key)
            for (auto& [b, vw] : after.border_versions) {
                (void) vw;
                if (before.border_versions.count(b) != 0U || before.border_versions.empty()) { continue; }
                if (b->prev_ == nullptr) { continue; } // leftmost of a layer: a layer root made by the first key of a prefix
                if (by_created.count(b->get_version_ptr()) == 0U) {
                    rep.violation("cnodeinfo:new-border-not-reported", "a border created by a split during the burst was reported by no put", ctx().done());
                }
            }
        }
        rep.count("rounds");
        if (shared > 0 || nsplits > 0) { rep.distinct(mix64(T, mix64(prefix.size(), mix64(order, (nsplits > 0 ? 1 : 0) + (shared > 0 ? 2 : 0) + (with_overwriter ? 4 : 0) + (legacy ? 8 : 0))))); }
        if (rd == 1) { rep.sample(ctx().num("puts", nputs).num("borders_before", before.border_versions.size()).num("borders_after", after.border_versions.size()).num("borders_touched_by_two_threads", shared).done()); }
    }
    rep.count("inserting_puts", total_puts);
    rep.count("splits_reported", total_splits);
    rep.count("borders_modified_by_two_or_more_threads_in_one_burst", shared_borders);
    yk::delete_storage(storage);
    yk::fin();
    drain_alloc_problems(rep);
    if (shared_borders == 0) { rep.inconclusive("no border was modified by two threads within one burst"); }
    return rep.finish();
}
