// C13 (concurrent half): racing create_storage / delete_storage on one name.
#include "conc_common.h"

using namespace vf;

int run_ddl(const Args& a) {
    uint64_t seed = a.num("seed", 1);
    uint64_t races = a.num("races", 1000);
    bool delays = a.num("delays", 1) != 0;
    Report rep(a.str("prop", "C13"), "conc_ddl", seed);
    rep.set_rule("N in {2..16} threads released together all create_storage(x) (then all delete_storage(x)) for names of several shapes, with 0 / 1 / ~20 other storages present (empty namespace = root-creation path); "
                 "exactly one OK per race, losers return WARN_UNIQUE_RESTRICTION (create) or WARN_NOT_EXIST / WARN_CONCURRENT_OPERATIONS (delete); after each race the namespace is compared with the model and the data of "
                 "bystander storages is re-read; mixed create/delete races must end in a state a serial order explains; all blocks released at fin. "
                 "distinct_nontrivial = races in which >=2 calls overlapped in time, by (kind, width, namespace population, name class)");
    yk::init();
    Rng r(seed);
    std::set<std::string> bystanders;
    Session ms;
    auto add_bystanders = [&](std::size_t n) {
        while (bystanders.size() < n) {
            std::string nm = "by" + std::to_string(r.below(100000));
            if (yk::create_storage(nm) == status::OK) {
                bystanders.insert(nm);
                ms.reenter();
                yput(ms.tok, nm, "k", "value-of-" + nm);
                ms.leave();
            }
        }
    };
    auto drop_bystanders = [&]() {
        for (auto& nm : bystanders) { yk::delete_storage(nm); }
        bystanders.clear();
    };
    uint64_t overlapping_races = 0;
    for (uint64_t rc = 0; rc < races && rep.violations() < 10; ++rc) {
        unsigned pop = static_cast<unsigned>(r.below(3));
        if (pop == 0) {
            drop_bystanders();
            if (r.chance(1, 2)) {
                // null namespace root: the racing creates go through the root-creation path of put()
                yk::destroy();
                rep.count("races_on_null_namespace_root");
            }
        } else {
            if (bystanders.size() > 25) { drop_bystanders(); }
            add_bystanders(pop == 1 ? 1 : 20);
        }
        static const int widths[] = {2, 2, 3, 4, 8, 16};
        int N = widths[r.below(6)];
        std::string name;
        const char* ncls = "";
        switch (r.below(4)) {
            case 0: name = ""; ncls = "empty"; break;
            case 1: name = "x" + std::to_string(rc % 7); ncls = "short"; break;
            case 2: name = std::string(8, 'N') + "sub" + std::to_string(rc % 5); ncls = "layered"; break;
            default: name = std::string(300, static_cast<char>('a' + rc % 3)); ncls = "long"; break;
        }
        ctl::Profile prof = make_profile(r, delays ? static_cast<int>(r.below(7)) : 0);
        ctl::g_profile.store(delays ? &prof : nullptr);
        unsigned kind = static_cast<unsigned>(r.below(5)); // 0,1: create race then delete race; 2: delete race on existing; 3,4: mixed
        if (a.str("kinds", "all") == "pure") { kind = kind % 3; }
        if (a.str("kinds", "all") == "mixed") { kind = 3; }
        auto race = [&](const char* what, const std::function<status(int)>& call, std::vector<status>& out, std::vector<std::pair<uint64_t, uint64_t>>& stamps) {
            out.assign(N, status::ERR_FATAL);
            stamps.assign(N, {0, 0});
            run_round(N, seed * 31337 + rc * 7 + (what[0] == 'c' ? 0 : 1), [&](int tid) {
                stamps[tid].first = stamp();
                out[tid] = call(tid);
                stamps[tid].second = stamp();
            });
            // overlap census
            bool ov = false;
            for (int i = 0; i < N; ++i) {
                for (int j = i + 1; j < N; ++j) {
                    if (stamps[i].first < stamps[j].second && stamps[j].first < stamps[i].second) { ov = true; }
                }
            }
            if (ov) {
                ++overlapping_races;
                rep.distinct(mix64(hash_bytes(what), mix64(N, mix64(pop, hash_bytes(ncls)))));
            }
            rep.eval();
            rep.count(std::string("races_") + what);
        };
        auto describe = [&](const std::vector<status>& out) {
            std::vector<std::string> v;
            for (auto s : out) { v.push_back(jesc(st(s))); }
            return JObj().str("name_class", ncls).num("threads", N).num("other_storages", bystanders.size()).raw("statuses", jarr(v));
        };
        std::vector<status> out;
        std::vector<std::pair<uint64_t, uint64_t>> stamps;
        if (kind <= 2) {
            bool exists = false;
            if (kind == 2) { exists = yk::create_storage(name) == status::OK; }
            if (kind <= 1) {
                race("create", [&](int) { return yk::create_storage(name); }, out, stamps);
                int ok = 0, uniq = 0;
                for (auto s : out) {
                    ok += s == status::OK ? 1 : 0;
                    uniq += s == status::WARN_UNIQUE_RESTRICTION ? 1 : 0;
                }
                if (ok != 1 || ok + uniq != N) {
                    rep.violation(ok == 0 ? "ddl:create-race-no-winner" : (ok > 1 ? "ddl:create-race-several-winners" : "ddl:create-race-unexpected-status"),
                                  "concurrent create_storage of one name: not exactly one success", describe(out).done());
                }
                exists = ok >= 1;
                if (yk::find_storage(name) != (exists ? status::OK : status::WARN_NOT_EXIST)) { rep.violation("ddl:namespace-after-create-race", "find_storage disagrees with the race outcome", describe(out).done()); }
                if (exists) {
                    ms.reenter();
                    if (yput(ms.tok, name, "after", "v") != status::OK) { rep.violation("ddl:created-storage-unusable", "put into the storage created by the race winner failed", describe(out).done()); }
                    ms.leave();
                }
            }
            if (exists) {
                race("delete", [&](int) { return yk::delete_storage(name); }, out, stamps);
                int ok = 0, lost = 0;
                for (auto s : out) {
                    ok += s == status::OK ? 1 : 0;
                    lost += (s == status::WARN_NOT_EXIST || s == status::WARN_CONCURRENT_OPERATIONS) ? 1 : 0;
                }
                if (ok != 1 || ok + lost != N) {
                    rep.violation(ok == 0 ? "ddl:delete-race-no-winner" : (ok > 1 ? "ddl:delete-race-several-winners" : "ddl:delete-race-unexpected-status"),
                                  "concurrent delete_storage of one name: not exactly one success", describe(out).done());
                }
                if (yk::find_storage(name) != status::WARN_NOT_EXIST) { rep.violation("ddl:namespace-after-delete-race", "storage still visible after a successful delete", describe(out).done()); }
            }
        } else {
            // mixed: half create, half delete; the end state must be explainable
            race("mixed", [&](int tid) { return tid % 2 == 0 ? yk::create_storage(name) : yk::delete_storage(name); }, out, stamps);
            int c_ok = 0, d_ok = 0;
            for (int i = 0; i < N; ++i) {
                if (out[i] == status::OK) { (i % 2 == 0 ? c_ok : d_ok)++; }
                bool legal = i % 2 == 0 ? (out[i] == status::OK || out[i] == status::WARN_UNIQUE_RESTRICTION)
                                        : (out[i] == status::OK || out[i] == status::WARN_NOT_EXIST || out[i] == status::WARN_CONCURRENT_OPERATIONS);
                if (!legal) { rep.violation("ddl:mixed-race-unexpected-status", "status outside the documented set", describe(out).done()); }
            }
            bool exists = yk::find_storage(name) == status::OK;
            // every successful delete needs a preceding successful create: exists == (creates - deletes == 1), and the difference is 0 or 1
            if (c_ok - d_ok != (exists ? 1 : 0)) {
                rep.violation("ddl:mixed-race-unexplainable-end-state", "successful creates minus successful deletes does not match the final existence of the storage", describe(out).boolean("exists_after", exists).done());
            }
            if (exists) { yk::delete_storage(name); }
        }
        ctl::g_profile.store(nullptr);
        // every 150th race: delete_storage of a *big* storage (teardown spans many epoch periods) while another
        // thread creates and fills new storages; the new storages must keep their data
        if (rc % 150 == 75) {
            std::string big = "big-storage";
            if (yk::create_storage(big) == status::OK) {
                ms.reenter();
                std::size_t nbig = a.num("bigkeys", 60000);
                for (std::size_t i = 0; i < nbig; ++i) {
                    char kb[32];
                    snprintf(kb, sizeof kb, "BIGSTORE%07zu", i);
                    yput(ms.tok, big, kb, "v");
                    if (i % 2000 == 0) { ms.reenter(); }
                }
                ms.leave();
                std::vector<std::string> fresh;
                std::atomic<bool> deleted{false};
                run_round(2, seed * 977 + rc, [&](int tid) {
                    if (tid == 0) {
                        status d = yk::delete_storage(big);
                        if (d != status::OK) { rep.violation("ddl:big-delete-status", "delete_storage of an existing storage failed", JObj().str("got", st(d)).done()); }
                        deleted.store(true);
                    } else {
                        Session s2;
                        for (int i = 0; i < 400 && (!deleted.load() || i < 40); ++i) {
                            std::string nm = "during-big-delete-" + std::to_string(i);
                            if (yk::create_storage(nm) != status::OK) { continue; }
                            s2.reenter();
                            for (int k = 0; k < 3; ++k) { yput(s2.tok, nm, "k" + std::to_string(k), "payload-of-" + nm); }
                            s2.leave();
                            fresh.push_back(nm);
                            std::this_thread::sleep_for(std::chrono::microseconds(300));
                        }
                    }
                });
                for (auto& nm : fresh) {
                    std::vector<ScanTuple> tl;
                    status ss = yk::scan<char>(nm, "", scan_endpoint::INF, "", scan_endpoint::INF, tl, nullptr, 0, false);
                    if ((ss != status::OK && ss != status::OK_ROOT_IS_NULL) || tl.size() != 3) {
                        rep.violation("ddl:storage-created-during-delete-lost-data", "a storage created while another storage was being deleted lost its entries",
                                      JObj().str("name", nm).str("scan", st(ss)).num("entries", tl.size()).done());
                        break;
                    }
                }
                for (auto& nm : fresh) { yk::delete_storage(nm); }
                rep.count("big_storage_deletes");
                rep.count("storages_created_during_big_delete", fresh.size());
            }
        }
        // bystanders untouched
        for (auto& nm : bystanders) {
            std::pair<char*, std::size_t> o;
            std::string want = "value-of-" + nm;
            if (yget(nm, "k", o) != status::OK || o.second != want.size() || memcmp(o.first, want.data(), want.size()) != 0) {
                rep.violation("ddl:bystander-storage-disturbed", "a storage not involved in the race lost or changed its data", JObj().str("name", nm).done());
            }
        }
        std::vector<std::pair<std::string, yk::tree_instance*>> lst;
        status ls = yk::list_storages(lst);
        if ((bystanders.empty() && ls != status::WARN_NOT_EXIST) || (!bystanders.empty() && (ls != status::OK || lst.size() != bystanders.size()))) {
            rep.violation("ddl:list-after-race", "list_storages differs from the model after the race", JObj().num("listed", lst.size()).num("want", bystanders.size()).done());
        }
        if (rc < 3) { rep.sample(describe(out).num("race", rc).done()); }
    }
    drop_bystanders();
    rep.count("races_with_overlapping_calls", overlapping_races);
    rep.note("hook_counts", ctl::counts_json());
    yk::fin();
    drain_alloc_problems(rep);
    alloc::Counters c = alloc::counters();
    if (c.live_blocks != 0) {
        std::vector<std::string> blocks;
        for (auto& b : alloc::live_blocks_snapshot(8)) { blocks.push_back(JObj().num("size", b.size).num("align", b.align).boolean("node", b.is_node).done()); }
        rep.violation(a.str("kinds", "all") == "pure" ? "ddl:blocks-live-after-fin" : "ddl:blocks-live-after-fin:with-mixed-create-delete-races",
                      "library blocks still allocated after fin()", JObj().num("live", c.live_blocks).raw("some_live_blocks", jarr(blocks)).done());
    }
    if (overlapping_races == 0) { rep.inconclusive("no race had overlapping calls"); }
    return rep.finish();
}
