// C16: init/fin cycles are repeatable: every cycle behaves like the first
// (empty namespace, all slots free, epoch advances, reclamation while running).
#include "conc_common.h"

using namespace vf;

namespace {

struct CycleObs {
    uint64_t epoch_start{0}, epoch_end{0};
    uint64_t epoch_ticks{0}, gc_ticks{0};
    uint64_t reclaimed_running{0};
    uint64_t retired{0};
    bool advanced{false}, reclaimed{false};
    uint64_t periods_waited{0};
};

} // namespace

int run_cycle(const Args& a) {
    uint64_t seed = a.num("seed", 1);
    uint64_t cycles = a.num("cycles", 5);
    uint64_t cap_periods = a.num("cap_periods", 3000);
    Report rep(a.str("prop", "C16"), "seq_cycle", seed);
    rep.set_rule("one process runs N init..fin cycles (some end with sessions still open, some call destroy() in the middle and keep working). After each init(): list_storages is empty, exactly YAKUSHIMA_MAX_PARALLEL_SESSIONS "
                 "enters succeed, keys of earlier cycles are invisible; a fixed measurement script retires values and nodes and waits - bounded by a number of epoch periods, not by a verdict on wall-clock - until the global epoch "
                 "advanced by >=3 and the GC thread released >=1 block retired in this cycle; a later cycle failing a criterion that cycle 1 met is the violation (cycle 1 failing it = inconclusive). Model equality inside every cycle; "
                 "0 live blocks after every fin(). distinct_nontrivial = cycles n>=2 that retired >=1 block, by (n, sessions-left-open?, destroy?)");
    Rng r(seed);
    std::vector<CycleObs> obs;
    std::vector<Token> left_open;
    for (uint64_t cy = 0; cy < cycles; ++cy) {
        CycleObs o;
        uint64_t et0 = ctl::count_of(ctl::point::EPOCH_LOOP);
        uint64_t gt0 = ctl::count_of(ctl::point::GC_LOOP);
        g_lifecycle_call.store("init");
        yk::init();
        g_lifecycle_call.store(nullptr);
        g_progress.fetch_add(1, std::memory_order_relaxed);
        rep.eval();
        // ---- fresh system?
        std::vector<std::pair<std::string, yk::tree_instance*>> lst;
        if (yk::list_storages(lst) != status::WARN_NOT_EXIST || !lst.empty()) {
            rep.violation("cycle:storage-of-earlier-cycle-visible", "list_storages is not empty right after init()", JObj().num("cycle", cy).num("listed", lst.size()).done());
        }
        if (yk::find_storage("cyc") == status::OK) { rep.violation("cycle:storage-of-earlier-cycle-visible", "storage of the previous cycle still found", JObj().num("cycle", cy).done()); }
        auto capacity_test = [&]() {
            std::vector<Token> toks;
            Token t{};
            while (toks.size() < YAKUSHIMA_MAX_PARALLEL_SESSIONS + 2U && yk::enter(t) == status::OK) { toks.push_back(t); }
            if (toks.size() != YAKUSHIMA_MAX_PARALLEL_SESSIONS) {
                rep.violation("cycle:session-slots-not-all-free", "number of sessions that can be opened differs from the capacity although no session is open",
                              JObj().num("cycle", cy).num("opened", toks.size()).num("capacity", YAKUSHIMA_MAX_PARALLEL_SESSIONS).done());
            }
            for (auto tk : toks) { yk::leave(tk); }
        };
        // entering and leaving every slot would repair a slot left in a bad state by the previous cycle, so the
        // capacity test runs before the measurement only in every other cycle
        bool capacity_first = cy % 2 == 0;
        if (capacity_first) { capacity_test(); }
        // ---- work + model
        status cs = yk::create_storage("cyc");
        if (cs != status::OK) { rep.violation("cycle:create-storage", "create_storage failed in a fresh cycle", JObj().str("got", st(cs)).num("cycle", cy).done()); }
        Model model;
        Session s;
        s.reenter();
        {
            std::pair<char*, std::size_t> g;
            if (yget("cyc", "key-of-cycle-" + std::to_string(cy == 0 ? 0 : cy - 1), g) == status::OK) {
                rep.violation("cycle:key-of-earlier-cycle-visible", "a key written in the previous cycle is readable", JObj().num("cycle", cy).done());
            }
        }
        std::string ck = "key-of-cycle-" + std::to_string(cy);
        yput(s.tok, "cyc", ck, "x");
        model[ck] = "x";
        bool do_destroy = r.chance(1, 4);
        alloc::Counters c0 = alloc::counters();
        o.epoch_start = yk::epoch_management::get_epoch();
        // measurement script: retire values (overwrite/remove) and nodes (fill + drain a dense family), in short sessions
        for (int round = 0; round < 6; ++round) {
            for (int i = 0; i < 120; ++i) {
                char b[24];
                snprintf(b, sizeof b, round % 2 == 0 ? "m%05d" : "MEASURE_%05d", i);
                std::string v = "v" + std::to_string(round) + "-" + std::to_string(i) + std::string(40, 'p');
                yput(s.tok, "cyc", b, v);
                model[b] = v;
            }
            s.reenter();
            for (int i = 0; i < 120; i += (round % 3 == 0 ? 1 : 2)) {
                char b[24];
                snprintf(b, sizeof b, round % 2 == 0 ? "m%05d" : "MEASURE_%05d", i);
                if (yk::remove(s.tok, "cyc", b) == status::OK) { model.erase(b); }
            }
            s.reenter();
        }
        s.leave();
        alloc::Counters c1 = alloc::counters();
        o.retired = ctl::count_of(ctl::point::RETIRE_VALUE) + ctl::count_of(ctl::point::RETIRE_NODE);
        // ---- wait (bounded) for epoch progress and a reclaim by the GC thread
        for (o.periods_waited = 0; o.periods_waited < cap_periods; ++o.periods_waited) {
            alloc::Counters c = alloc::counters();
            o.epoch_end = yk::epoch_management::get_epoch();
            o.reclaimed_running = c.frees_by_lib - c0.frees_by_lib;
            o.advanced = o.epoch_end >= o.epoch_start + 3;
            o.reclaimed = o.reclaimed_running >= 1;
            if (o.advanced && o.reclaimed) { break; }
            g_progress.fetch_add(1, std::memory_order_relaxed);
            std::this_thread::sleep_for(std::chrono::milliseconds(YAKUSHIMA_EPOCH_TIME));
        }
        (void) c1;
        // ---- model equality
        coherence_check(rep, "cyc", model, true, nullptr);
        if (!capacity_first) { capacity_test(); }
        if (do_destroy) {
            g_lifecycle_call.store("destroy");
            status d = yk::destroy();
            g_lifecycle_call.store(nullptr);
            rep.count("destroy_calls");
            if (d != status::OK_DESTROY_ALL) { rep.violation("cycle:destroy-status", "destroy returned " + st(d), "{}"); }
            // empty but usable
            if (yk::list_storages(lst) != status::WARN_NOT_EXIST) { rep.violation("cycle:destroy-left-storages", "storages visible after destroy()", "{}"); }
            if (yk::create_storage("after-destroy") != status::OK) { rep.violation("cycle:unusable-after-destroy", "create_storage after destroy() failed", "{}"); }
            Session d2;
            d2.reenter();
            status p = yput(d2.tok, "after-destroy", "k", "v");
            std::pair<char*, std::size_t> g;
            status gg = yget("after-destroy", "k", g);
            d2.leave();
            if (p != status::OK || gg != status::OK || g.second != 1) { rep.violation("cycle:unusable-after-destroy", "put/get after destroy() failed", JObj().str("put", st(p)).str("get", st(gg)).done()); }
        }
        bool leave_open = r.chance(1, 2);
        if (leave_open) {
            // leave a session open in a slot that is not the first one (the next cycle's workers use the low slots)
            std::vector<Token> toks;
            std::size_t k = r.range(1, 12);
            for (std::size_t i = 0; i < k; ++i) {
                Token t{};
                if (yk::enter(t) == status::OK) { toks.push_back(t); }
            }
            for (std::size_t i = 0; i + 1 < toks.size(); ++i) { yk::leave(toks[i]); }
            if (!toks.empty()) { rep.count("cycles_ending_with_open_session"); }
            if (!toks.empty() && r.chance(2, 3)) {
                // the abandoned session retires a value (and sometimes a node) through ITS slot and never leaves: the GC
                // thread can only park that element (too young for the open session), so at fin() the slot's queues are
                // empty and its look-ahead cache is not (seeded C16-d)
                (void) yk::create_storage("abandoned");
                std::string big(64, 'a');
                yput(toks.back(), "abandoned", "ab-key", big);
                if (r.chance(1, 2)) {
                    yput(toks.back(), "abandoned", "ab-key", big + "2");
                } else {
                    (void) yk::remove(toks.back(), "abandoned", "ab-key");
                }
                if (r.chance(1, 2)) {
                    // ... and a node: a family that splits the border and is drained again (an emptied leaf is unlinked and retired)
                    for (int i = 0; i < 24; ++i) { yput(toks.back(), "abandoned", "ab-n" + std::to_string(100 + i), big); }
                    for (int i = 0; i < 24; ++i) { (void) yk::remove(toks.back(), "abandoned", "ab-n" + std::to_string(100 + i)); }
                    rep.count("cycles_ending_with_an_open_session_that_retired_nodes");
                }
                rep.count("cycles_ending_with_an_open_session_that_retired_memory");
            }
            if (!toks.empty() && r.chance(1, 2)) {
                // the abandoned session gets old: the epoch advances (or tries to) while it is open, then fin() is called
                uint64_t e0 = yk::epoch_management::get_epoch();
                for (int w = 0; w < 40 && yk::epoch_management::get_epoch() < e0 + 3; ++w) {
                    std::this_thread::sleep_for(std::chrono::milliseconds(YAKUSHIMA_EPOCH_TIME));
                    g_progress.fetch_add(1, std::memory_order_relaxed);
                }
                rep.count("cycles_ending_with_an_open_session_older_than_an_epoch");
            }
        }
        g_progress.fetch_add(1, std::memory_order_relaxed);
        g_lifecycle_call.store("fin");
        yk::fin();
        g_lifecycle_call.store(nullptr);
        g_progress.fetch_add(1, std::memory_order_relaxed);
        o.epoch_ticks = ctl::count_of(ctl::point::EPOCH_LOOP) - et0;
        o.gc_ticks = ctl::count_of(ctl::point::GC_LOOP) - gt0;
        alloc::Counters c2 = alloc::counters();
        if (c2.live_blocks != 0) { rep.violation("cycle:blocks-live-after-fin", "blocks live after fin()", JObj().num("cycle", cy).num("live", c2.live_blocks).done()); }
        for (auto& p : alloc::take_problems()) { rep.violation("cycle:" + p.key, "allocation registry", p.detail); }
        obs.push_back(o);
        rep.count("cycles");
        bool stop_early = cy >= 1 && obs[0].advanced && obs[0].reclaimed && (!o.advanced || !o.reclaimed); // a later cycle failed: no need to wait out the cap again
        JObj cj;
        cj.num("cycle", cy).num("epoch_start", o.epoch_start).num("epoch_end", o.epoch_end).num("epoch_thread_loops", o.epoch_ticks).num("gc_thread_loops", o.gc_ticks).num("reclaimed_by_gc_thread_while_running", o.reclaimed_running).num("periods_waited", o.periods_waited);
        rep.sample(cj.done(), 8);
        if (cy >= 1) { rep.distinct(mix64(cy, (leave_open ? 1 : 0) + (do_destroy ? 2 : 0))); }
        if (stop_early) { break; }
    }
    // ---- compare later cycles with the first
    if (!obs.empty()) {
        const CycleObs& first = obs[0];
        if (!first.advanced || !first.reclaimed) {
            rep.inconclusive("cycle 1 itself did not show epoch progress / reclamation within the cap");
        } else {
            for (std::size_t i = 1; i < obs.size(); ++i) {
                if (!obs[i].advanced) {
                    rep.violation("cycle:epoch-does-not-advance-after-reinit", "the global epoch advanced in cycle 1 but not in a later cycle",
                                  JObj().num("cycle", i).num("epoch_start", obs[i].epoch_start).num("epoch_end", obs[i].epoch_end).num("epoch_thread_loops", obs[i].epoch_ticks).num("first_cycle_advance", first.epoch_end - first.epoch_start).done());
                }
                if (!obs[i].reclaimed) {
                    rep.violation("cycle:no-reclamation-while-running-after-reinit", "retired memory was reclaimed while running in cycle 1 but not in a later cycle",
                                  JObj().num("cycle", i).num("gc_thread_loops", obs[i].gc_ticks).num("first_cycle_reclaimed", first.reclaimed_running).done());
                }
            }
        }
    }
    return rep.finish();
}
