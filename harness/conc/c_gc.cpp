// C07: memory handed out inside a session stays valid until that session
// leaves. Hold-table monitor on the allocation registry (no reuse luck needed)
// + content re-validation (and ASan in the asan build).
#include "conc_common.h"

using namespace vf;

namespace {

std::atomic<uint64_t> g_holder{1};

struct HeldSession {
    Session ses;
    uint64_t holder{0};
    std::vector<std::pair<const void*, uint64_t>> blocks; // (base, seq) registered under this holder
    struct Val {
        const char* p;
        std::size_t len;
        std::string key;
        uint64_t id;
    };
    std::vector<Val> vals;
    std::vector<yk::node_version64*> nodes;

    void begin() {
        ses.reenter();
        holder = g_holder.fetch_add(1);
        blocks.clear();
        vals.clear();
        nodes.clear();
    }
    // returns false if the pointer does not resolve to a live block
    bool reg(const void* p) {
        alloc::Block b{};
        if (!alloc::hold(p, holder, &b)) { return false; }
        blocks.emplace_back(b.base, b.seq);
        return true;
    }
    void end() {
        alloc::unhold(blocks, holder); // "about to call leave"
        ses.leave();
    }
};

} // namespace

int run_gc(const Args& a) {
    uint64_t seed = a.num("seed", 1);
    uint64_t sessions_target = a.num("sessions", 300);
    uint64_t min_reclaims = a.num("min_reclaims", 500);
    bool stalls = a.num("stalls", 1) != 0;
    int nreaders = static_cast<int>(a.num("readers", 4));
    int nwriters = static_cast<int>(a.num("writers", 4));
    int nchurn = static_cast<int>(a.num("churners", 2));
    Report rep(a.str("prop", "C07"), "conc_gc", seed);
    rep.set_rule("long- and short-lived reader sessions register every pointer the API hands out (get, scan, iscan values; node versions from scan/get-miss/put) in a hold table keyed by session incarnation, "
                 "re-validate the bytes (value self-check, get_stable_version) while holding, and drop the holds right before leave; removers/overwriters retire values, churners empty/refill borders and sub-layers "
                 "(node retires); the interposed operator delete reports any release of a block with a non-empty holder set; stalls of 2..20 epoch periods are injected between reading the global epoch and publishing "
                 "the begin epoch, and in the epoch/gc loops. A run with too few GC-thread reclaims is inconclusive. "
                 "distinct_nontrivial = GC-thread releases that happened while >=1 reader session was open, bucketed by (block kind, log2 of open holders at that time)");
    yk::init();
    Rng r(seed);
    std::string storage = "gc";
    yk::create_storage(storage);
    std::vector<std::string> hot;
    for (unsigned i = 0; i < 48; ++i) {
        char b[24];
        snprintf(b, sizeof b, i % 3 == 0 ? "h%04u" : (i % 3 == 1 ? "HOTLAYER%02u" : "h%04uxx"), i);
        hot.emplace_back(b);
    }
    std::atomic<uint64_t> next_id{1};
    {
        Session s;
        s.reenter();
        for (auto& k : hot) { yput(s.tok, storage, k, make_value(next_id.fetch_add(1), k, 40)); }
        for (unsigned i = 0; i < 200; ++i) {
            char b[16];
            snprintf(b, sizeof b, "fill%04u", i);
            yput(s.tok, storage, b, make_value(next_id.fetch_add(1), b, 24));
        }
        s.leave();
    }
    ctl::Profile prof;
    if (stalls) {
        // SET_BEGIN_EPOCH fires in enter (between get_epoch and the store) and in leave; sleep up to 20 ms = 20 epoch periods
        prof.at(ctl::point::SET_BEGIN_EPOCH) = ctl::Rule{static_cast<uint32_t>(a.num("stall_prob16", 1500)), 3, static_cast<uint32_t>(a.num("stall_us", 60000))};
        prof.at(ctl::point::EPOCH_LOOP) = ctl::Rule{3000, 3, 2000};
        prof.at(ctl::point::GC_LOOP) = ctl::Rule{3000, 3, 2000};
        prof.at(ctl::point::RM_CLEARED) = ctl::Rule{3000, 2, 2000};
    }
    ctl::g_profile.store(&prof);
    std::atomic<bool> stop{false};
    std::atomic<uint64_t> sessions_done{0}, regs_get{0}, regs_scan{0}, regs_iscan{0}, regs_node{0}, regs_put{0}, unresolved{0}, content_bad{0}, max_hold_us{0};
    std::atomic<int> open_readers{0};
    alloc::Counters c0 = alloc::counters();
    std::vector<std::thread> th;
    auto worker = [&](int tid, int role) {
        alloc::set_role(alloc::ROLE_WORKER);
        ctl::thread_begin(tid, seed * 1000 + tid);
        Rng tr(seed * 7777 + tid);
        if (role == 0) {
            // ---------------- reader
            HeldSession hs;
            while (!stop.load(std::memory_order_acquire)) {
                hs.begin();
                open_readers.fetch_add(1);
                double t0 = now_s();
                bool long_lived = tr.chance(1, 3);
                std::size_t nreads = long_lived ? tr.range(5, 40) : tr.range(1, 8);
                for (std::size_t i = 0; i < nreads; ++i) {
                    unsigned x = static_cast<unsigned>(tr.below(10));
                    if (x < 6) {
                        const std::string& k = hot[tr.below(hot.size())];
                        std::pair<char*, std::size_t> o;
                        std::pair<yk::node_version64_body, yk::node_version64*> cv{};
                        status s = yget(storage, k, o, &cv);
                        if (s == status::OK) {
                            if (!hs.reg(o.first)) {
                                unresolved.fetch_add(1);
                                rep.violation("gc:get-returned-pointer-to-released-block", "value pointer returned by get does not lie in a live block", JObj().str("key", k).done());
                                continue;
                            }
                            regs_get.fetch_add(1, std::memory_order_relaxed);
                            uint64_t id = 0;
                            if (check_value(o.first, o.second, k, id) == ValCheck::OK) { hs.vals.push_back({o.first, o.second, k, id}); }
                        } else if (s == status::WARN_NOT_EXIST && cv.second != nullptr) {
                            if (hs.reg(cv.second)) {
                                regs_node.fetch_add(1, std::memory_order_relaxed);
                                hs.nodes.push_back(cv.second);
                            } else {
                                unresolved.fetch_add(1);
                                rep.violation("gc:checked-version-points-to-released-node", "node version pointer of a get-miss does not lie in a live node", "{}");
                            }
                        }
                    } else if (x < 8) {
                        std::vector<ScanTuple> tl;
                        NvVec nv;
                        const std::string& k = hot[tr.below(hot.size())];
                        yk::scan<char>(storage, k, scan_endpoint::INCLUSIVE, "", scan_endpoint::INF, tl, &nv, tr.range(1, 12), false);
                        for (auto& t : tl) {
                            if (std::get<1>(t) == nullptr) { continue; }
                            if (!hs.reg(std::get<1>(t))) {
                                unresolved.fetch_add(1);
                                rep.violation("gc:scan-returned-pointer-to-released-block", "value pointer returned by scan does not lie in a live block", "{}");
                                continue;
                            }
                            regs_scan.fetch_add(1, std::memory_order_relaxed);
                            uint64_t id = 0;
                            if (check_value(std::get<1>(t), std::get<2>(t), std::get<0>(t), id) == ValCheck::OK) { hs.vals.push_back({std::get<1>(t), std::get<2>(t), std::get<0>(t), id}); }
                        }
                        for (auto& [body, ptr] : nv) {
                            if (hs.reg(ptr)) {
                                regs_node.fetch_add(1, std::memory_order_relaxed);
                                hs.nodes.push_back(ptr);
                            } else {
                                unresolved.fetch_add(1);
                                rep.violation("gc:scan-node-version-points-to-released-node", "node version pointer returned by scan does not lie in a live node", "{}");
                            }
                        }
                    } else {
                        std::vector<CursorItem> items;
                        const std::string& k = hot[tr.below(hot.size())];
                        // collect by hand so that every pointer is registered before the next step
                        yk::iscan_context* ctx = nullptr;
                        void* v = nullptr;
                        status s = yk::iscan_open(storage, k, scan_endpoint::INCLUSIVE, "", scan_endpoint::INF, tr.chance(1, 2), false, ctx, v);
                        std::size_t steps = 0;
                        while (s == status::OK && steps < 10) {
                            ++steps;
                            if (v != nullptr) {
                                if (hs.reg(v)) {
                                    regs_iscan.fetch_add(1, std::memory_order_relaxed);
                                } else {
                                    unresolved.fetch_add(1);
                                    rep.violation("gc:iscan-returned-pointer-to-released-block", "value pointer returned by the cursor does not lie in a live block", "{}");
                                }
                            }
                            s = yk::iscan_next(ctx, v);
                        }
                        if (ctx != nullptr) { yk::iscan_close(ctx); }
                    }
                    if (long_lived && tr.chance(1, 4)) { std::this_thread::sleep_for(std::chrono::microseconds(tr.range(100, 1500))); }
                    // re-validate a sample of what is held
                    for (int q = 0; q < 3 && !hs.vals.empty(); ++q) {
                        auto& hv = hs.vals[tr.below(hs.vals.size())];
                        uint64_t id = 0;
                        if (check_value(hv.p, hv.len, hv.key, id) != ValCheck::OK || id != hv.id) { content_bad.fetch_add(1); }
                    }
                    if (!hs.nodes.empty()) { (void) hs.nodes[tr.below(hs.nodes.size())]->get_stable_version(); }
                }
                // final full re-validation right before leave
                for (auto& hv : hs.vals) {
                    uint64_t id = 0;
                    if (check_value(hv.p, hv.len, hv.key, id) != ValCheck::OK || id != hv.id) { content_bad.fetch_add(1); }
                }
                for (auto* n : hs.nodes) { (void) n->get_stable_version(); }
                uint64_t us = static_cast<uint64_t>((now_s() - t0) * 1e6);
                uint64_t m = max_hold_us.load();
                while (us > m && !max_hold_us.compare_exchange_weak(m, us)) {}
                open_readers.fetch_sub(1);
                hs.end();
                sessions_done.fetch_add(1);
                g_progress.fetch_add(1, std::memory_order_relaxed);
            }
        } else if (role == 1) {
            // ---------------- remover / overwriter (retires values); registers created_value_ptr / inserted node
            HeldSession hs;
            while (!stop.load(std::memory_order_acquire)) {
                hs.begin();
                std::size_t nops = tr.range(1, 12);
                for (std::size_t i = 0; i < nops; ++i) {
                    const std::string& k = hot[tr.below(hot.size())];
                    // sometimes the retiring session itself stays open across epoch advances before it retires
                    if (tr.chance(1, 5)) { std::this_thread::sleep_for(std::chrono::microseconds(tr.range(300, 4000))); }
                    if (tr.chance(2, 3)) {
                        char* created = nullptr;
                        yk::inserted_node_info ini{};
                        std::string v = make_value(next_id.fetch_add(1), k, tr.range(24, 200));
                        status s = yput(hs.ses.tok, storage, k, v, false, 8, &created, &ini);
                        if (s == status::OK && created != nullptr) {
                            if (hs.reg(created)) {
                                regs_put.fetch_add(1, std::memory_order_relaxed);
                            } else {
                                unresolved.fetch_add(1);
                                rep.violation("gc:created-value-ptr-points-to-released-block", "created_value_ptr does not lie in a live block", "{}");
                            }
                        }
                    } else {
                        yk::remove(hs.ses.tok, storage, k);
                    }
                }
                g_progress.fetch_add(1, std::memory_order_relaxed);
                hs.end();
            }
        } else {
            // ---------------- node churner: dense private families inserted and removed (border/interior/layer-root retires)
            Session ses;
            std::vector<std::string> fam;
            for (unsigned i = 0; i < 60; ++i) {
                char b[32];
                if (tid % 2 == 0) {
                    snprintf(b, sizeof b, "h%04uc%02d%03u", (tid * 7) % 48, tid, i);
                } else {
                    snprintf(b, sizeof b, "CHURNLY%d%03u", tid % 10, i);
                }
                fam.emplace_back(b);
            }
            while (!stop.load(std::memory_order_acquire)) {
                ses.reenter();
                for (auto& k : fam) { yput(ses.tok, storage, k, make_value(next_id.fetch_add(1), k, 24)); }
                ses.reenter();
                for (auto& k : fam) { yk::remove(ses.tok, storage, k); }
                ses.leave();
            }
        }
        ctl::thread_end();
    };
    int tid = 0;
    for (int i = 0; i < nreaders; ++i) { th.emplace_back(worker, tid++, 0); }
    for (int i = 0; i < nwriters; ++i) { th.emplace_back(worker, tid++, 1); }
    for (int i = 0; i < nchurn; ++i) { th.emplace_back(worker, tid++, 2); }
    // monitor loop: wait for the session target and enough GC reclaims (bounded by observed epoch ticks, not wall-clock)
    uint64_t tick0 = ctl::count_of(ctl::point::EPOCH_LOOP);
    uint64_t max_ticks = a.num("max_ticks", 60000);
    uint64_t lib_free_with_readers = 0;
    uint64_t last_lib = alloc::counters().frees_by_lib;
    while (true) {
        std::this_thread::sleep_for(std::chrono::milliseconds(2));
        alloc::Counters c = alloc::counters();
        if (c.frees_by_lib != last_lib) {
            int open = open_readers.load();
            if (open > 0) {
                lib_free_with_readers += c.frees_by_lib - last_lib;
                rep.distinct(mix64(0x6c, static_cast<uint64_t>(open) * 64 + std::min<uint64_t>(63, c.frees_by_lib - last_lib)));
            }
            last_lib = c.frees_by_lib;
        }
        auto probs = alloc::take_problems();
        for (auto& p : probs) {
            JObj d;
            d.raw("registry", p.detail).num("global_epoch", yk::epoch_management::get_epoch()).num("gc_epoch", yk::garbage_collection::get_gc_epoch());
            rep.violation("gc:" + p.key, "a block was released while a session that obtained a pointer into it was still open", d.done());
        }
        uint64_t ticks = ctl::count_of(ctl::point::EPOCH_LOOP) - tick0;
        bool enough = sessions_done.load() >= sessions_target && (c.frees_by_lib - c0.frees_by_lib) >= min_reclaims;
        if (enough || ticks > max_ticks || rep.violations() >= 5) { break; }
    }
    stop.store(true);
    for (auto& t : th) { t.join(); }
    ctl::g_profile.store(nullptr);
    drain_alloc_problems(rep);
    alloc::Counters c1 = alloc::counters();
    rep.eval(sessions_done.load());
    rep.count("reader_sessions", sessions_done.load());
    rep.count("pointers_registered_get", regs_get.load());
    rep.count("pointers_registered_scan", regs_scan.load());
    rep.count("pointers_registered_iscan", regs_iscan.load());
    rep.count("pointers_registered_node_version", regs_node.load());
    rep.count("pointers_registered_created_value", regs_put.load());
    rep.count("releases_by_gc_thread", c1.frees_by_lib - c0.frees_by_lib);
    rep.count("releases_by_gc_thread_while_reader_open", lib_free_with_readers);
    rep.count("value_releases", c1.value_frees - c0.value_frees);
    rep.count("node_releases", c1.node_frees - c0.node_frees);
    rep.count("max_hold_us", max_hold_us.load());
    rep.count("epoch_advances", ctl::count_of(ctl::point::EPOCH_ADVANCE));
    rep.count("stalls_injected_at_begin_epoch_publish", ctl::delays_of(ctl::point::SET_BEGIN_EPOCH));
    rep.note("hook_counts", ctl::counts_json());
    if (content_bad.load() != 0) { rep.violation("gc:held-value-content-changed", "bytes behind a held value pointer changed or became invalid before leave", JObj().num("count", content_bad.load()).done()); }
    rep.sample(JObj().num("reader_sessions", sessions_done.load()).num("gc_thread_releases", c1.frees_by_lib - c0.frees_by_lib).num("while_reader_open", lib_free_with_readers).num("stalls", ctl::delays_of(ctl::point::SET_BEGIN_EPOCH)).done());
    alloc::clear_all_holds();
    yk::delete_storage(storage);
    yk::fin();
    drain_alloc_problems(rep);
    if ((c1.frees_by_lib - c0.frees_by_lib) < min_reclaims) { rep.inconclusive("too few GC-thread reclaims observed: " + std::to_string(c1.frees_by_lib - c0.frees_by_lib)); }
    if (lib_free_with_readers == 0) { rep.inconclusive("no GC-thread release happened while a reader session was open"); }
    return rep.finish();
}
