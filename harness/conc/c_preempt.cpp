// Preemption explorer: ONE optimistic reader call (get / scan / cursor
// iteration) is run on the real code, and at its k-th shared-memory access
// (ATOMIC hook point: every atomic load of a link, version word, permutation
// word, slot ...) the hook runs a complete burst of write operations of
// another session on the same OS thread. An optimistic reader holds no lock,
// so this is exactly the schedule "reader preempted before that load, writers
// run whole operations, reader resumes" - produced deterministically, for
// every k (or a sample of them when the call makes many accesses). Windows
// that are two consecutive loads wide are reached with certainty instead of by
// luck. The tree is rebuilt from the same recipe for every k.
//
// Oracles (per reader kind, selectable): result rules of C04 / C10 (ascending,
// in interval, values that were current at some instant, stable keys never
// skipped), C06 (set fresh => every key the burst inserted into the covered
// interval is in the result), C05 (fresh set + a further insert => stale),
// C01 (get returns a binding the key had at some instant).
#include "conc_common.h"

using namespace vf;

namespace {

struct Pre {
    bool armed{false};
    bool nested{false};
    uint64_t count{0};
    uint64_t fire_at{0};
    uint64_t fire_at2{0};
    const std::function<void()>* burst{nullptr};
    const std::function<void()>* burst2{nullptr};
    int fired{0};
    // writer mode: a burst may only run while the outer operation holds no node lock and no root lock
    bool writer_mode{false};
    int held{0};
    bool pending{false};
    uint64_t nodes0{0}; // node allocations when the outer call started / when the last burst ended: once the outer call has
                        // created a node (split, new layer, new root) it may hold locks the hook never saw being taken
                        // (a split sibling is born locked), so it is no longer preempted
    std::vector<uint64_t>* eligible{nullptr}; // positions (access counts) at which no lock was held (recorded in the undisturbed run)
};
thread_local Pre* t_pre = nullptr; // NOLINT

bool pre_hook(yakushima::verif::point p, const void* /*obj*/) {
    Pre* s = t_pre;
    if (s == nullptr || !s->armed || s->nested) { return false; }
    if (s->writer_mode) {
        using yakushima::verif::point;
        if (p == point::LOCK_ACQ || p == point::ROOT_ACQ) { ++s->held; }
        if (p == point::LOCK_REL || p == point::ROOT_REL) { --s->held; }
        if (p != point::ATOMIC) { return false; }
        ++s->count;
        bool lock_free = s->held == 0 && alloc::counters().node_allocs == s->nodes0;
        if (lock_free && s->eligible != nullptr) { s->eligible->push_back(s->count); }
        if (s->count == s->fire_at) { s->pending = true; }
        if (s->pending && lock_free && s->burst != nullptr) {
            s->pending = false;
            s->nested = true;
            (*s->burst)();
            s->nested = false;
            s->nodes0 = alloc::counters().node_allocs;
            ++s->fired;
        }
        return false;
    }
    if (p != yakushima::verif::point::ATOMIC) { return false; }
    ++s->count;
    if (s->count == s->fire_at && s->burst != nullptr) {
        s->nested = true;
        (*s->burst)();
        s->nested = false;
        ++s->fired;
    } else if (s->count == s->fire_at2 && s->burst2 != nullptr) {
        s->nested = true;
        (*s->burst2)();
        s->nested = false;
        ++s->fired;
    }
    return false;
}

struct WOp {
    bool ins;
    std::string key;
    uint64_t id;
};

struct Recipe {
    int ukind{0};
    std::vector<std::string> uni;          // sorted universe
    std::vector<std::pair<std::string, uint64_t>> initial; // in insertion order
    std::vector<std::string> pre_removed;  // removed again after the initial build (node ranges start before their first key)
};

bool in_interval(const std::string& k, const std::string& l, scan_endpoint le, const std::string& r, scan_endpoint re) {
    if (le == scan_endpoint::INCLUSIVE && k < l) { return false; }
    if (le == scan_endpoint::EXCLUSIVE && k <= l) { return false; }
    if (re == scan_endpoint::INCLUSIVE && k > r) { return false; }
    if (re == scan_endpoint::EXCLUSIVE && k >= r) { return false; }
    return true;
}

} // namespace

int run_preempt(const Args& a) {
    uint64_t seed = a.num("seed", 1);
    uint64_t cases = a.num("cases", 300);
    std::string reader = a.str("reader", "iscan");
    std::string oracle = a.str("oracle", "consistency,phantom");
    bool want_cons = oracle.find("consistency") != std::string::npos;
    bool want_phantom = oracle.find("phantom") != std::string::npos;
    bool want_post = oracle.find("post") != std::string::npos;
    uint64_t max_points = a.num("points", 40);
    Report rep(a.str("prop", "C10"), "preempt_" + reader, seed);
    rep.set_rule("preemption explorer: per case a small tree (flat / one sub-layer below an 8-byte prefix with values around the link / 8-byte key that is also a prefix; nodes of different fill, some full) and ONE reader call (" + reader +
                 "); the call is first run undisturbed to count its K shared-memory accesses (ATOMIC hook points), then re-run on an identically rebuilt tree once per chosen k in 1..K (all k when K <= points, else first/last 8 and a random sample): "
                 "at its k-th access the hook runs, on the same thread with another session, a whole burst of writes next to the reader's position (1..16 adjacent inserts that split the node, 1..32 adjacent removes that empty and unlink nodes / collapse "
                 "interiors / retire a layer root, remove+reinsert reusing slots, mixes; sometimes a second burst at a later access) - i.e. the schedule 'reader preempted before that load'. Oracles [" + oracle +
                 "]: result strictly monotone, inside the interval, every value a binding the key had at some instant, every key present and untouched throughout is returned (up to the size limit / the abort), set fresh after the call => every key the "
                 "burst inserted into the covered interval is in the result, post-insert => some pair stale; walker + model equality on a sample. distinct_nontrivial = executions by (universe, burst kind, relative position of k, result changed vs the undisturbed run)");
    yk::init();
    yakushima::verif::set_hook(&pre_hook);
    Pre pre;
    t_pre = &pre;
    Rng r(seed);
    std::string storage = "px";
    std::atomic<uint64_t> next_id{1};
    Session rses; // the reader's session
    Session wses; // the nested writer's session
    uint64_t executions = 0, changed_results = 0, retried = 0;
    const std::size_t VLEN = 24;
    // some cases store part of the keys as *inline* values (pointer-typed; the 8 bytes are the value, never
    // dereferenced by the library): a cleared slot of such a key looks different to readers than a heap value
    bool inline_mode = false;
    auto is_inline = [&](const std::string& k) { return inline_mode && (hash_bytes(k) & 1U) == 0; };
    auto wput = [&](Token tok, const std::string& k, uint64_t id, bool unique) {
        if (is_inline(k)) {
            void* pv = reinterpret_cast<void*>(static_cast<uintptr_t>(id) << 1U); // NOLINT
            return yk::put<void*>(tok, storage, k, &pv, sizeof(void*), static_cast<void***>(nullptr), static_cast<yk::value_align_type>(alignof(void*)), unique);
        }
        return yput(tok, storage, k, make_value(id, k, VLEN), unique);
    };
    // value id of a returned (pointer, length); 0 + problem text when it is not a value of that key
    auto decode = [&](const std::string& k, const char* p, std::size_t len, bool has_len, std::string& problem) -> uint64_t {
        if (is_inline(k)) {
            if (has_len && len != sizeof(void*)) {
                if (problem.empty()) { problem = "value length of an inline value is not 8 for key " + k; }
                return 0;
            }
            return static_cast<uint64_t>(reinterpret_cast<uintptr_t>(p) >> 1U); // NOLINT
        }
        uint64_t vid = 0;
        ValCheck vc = has_len ? check_value(p, len, k, vid) : check_value_nolen(p, k, vid);
        if (vc != ValCheck::OK && problem.empty()) { problem = std::string("value ") + valcheck_name(vc) + " for key " + k; }
        return vid;
    };

    auto build = [&](const Recipe& rc, std::map<std::string, uint64_t>& state) {
        yk::create_storage(storage);
        state.clear();
        for (auto& [k, id] : rc.initial) {
            wput(wses.tok, k, id, false);
            state[k] = id;
        }
        for (auto& k : rc.pre_removed) {
            yk::remove(wses.tok, storage, k);
            state.erase(k);
        }
    };

    for (uint64_t cs = 0; cs < cases && rep.violations() < 12; ++cs) {
        // ---------------------------------------------------------------- recipe
        Recipe rc;
        inline_mode = r.chance(1, 3);
        rc.ukind = static_cast<int>(r.below(4));
        std::size_t n = r.chance(1, 5) ? r.range(150, 420) : r.range(24, 90); // the larger ones have two interior levels
        std::string pfx = rc.ukind == 0 ? "" : (rc.ukind == 1 ? "LAYER001" : "PREFIX8B");
        if (rc.ukind == 3) {
            // many tiny sub-layers: groups of keys sharing an 8-byte prefix, every other group absent altogether; a burst can
            // empty a whole layer and the slot of its link is taken by a key of another prefix or by a short key
            std::size_t groups = r.range(6, 40);
            for (std::size_t g = 0; g < groups; ++g) {
                char b[16];
                snprintf(b, sizeof b, "GRP%05zu", g);
                for (int i = 0; i < 8; ++i) {
                    if (g % 2 == 0 ? (i % 2 == 0) : (i == 3 || i == 5)) { rc.uni.push_back(std::string(b) + static_cast<char>('0' + i)); }
                }
                if (g % 3 == 0) {
                    char sb[16];
                    snprintf(sb, sizeof sb, "GRP%04zu", g); // 7 bytes: a value entry of the top border between the links
                    rc.uni.emplace_back(sb);
                }
            }
        }
        for (std::size_t i = 0; rc.ukind != 3 && i < n * 4; ++i) {
            char b[16];
            snprintf(b, sizeof b, "%05zu", i);
            rc.uni.push_back(pfx + (rc.ukind == 0 ? "k" : "") + b);
        }
        if (rc.ukind != 0) {
            for (const char* k : {"A1", "A2", "A3", "A4", "A5", "A6", "z1", "z2", "z3", "z4", "z5", "z6"}) { rc.uni.emplace_back(k); }
        }
        if (rc.ukind == 2) { rc.uni.push_back(pfx); } // the 8-byte key next to its own link
        std::sort(rc.uni.begin(), rc.uni.end());
        rc.uni.erase(std::unique(rc.uni.begin(), rc.uni.end()), rc.uni.end());
        {
            std::vector<std::string> ini;
            for (std::size_t i = 0; i < rc.uni.size(); ++i) {
                bool shortkey = rc.uni[i].size() <= 3;
                if (rc.ukind == 3) {
                    // even groups present (2..4 keys each), odd groups and most short keys absent
                    bool grp = rc.uni[i].size() == 9;
                    if (grp ? ((rc.uni[i][7] - '0') % 2 == 0) : (i % 3 == 0)) { ini.push_back(rc.uni[i]); }
                    continue;
                }
                if (shortkey ? (i % 2 == 0) : (i % 4 == 0)) { ini.push_back(rc.uni[i]); }
            }
            if (rc.ukind == 2 && r.chance(2, 3)) { ini.push_back(pfx); }
            // densify one or two places so that some node is (nearly) full
            for (int d = 0; d < 2; ++d) {
                if (r.chance(1, 2)) {
                    std::size_t at = r.below(rc.uni.size());
                    std::size_t m = r.range(4, 14);
                    for (std::size_t j = at; j < rc.uni.size() && j < at + m; ++j) { ini.push_back(rc.uni[j]); }
                }
            }
            std::sort(ini.begin(), ini.end());
            ini.erase(std::unique(ini.begin(), ini.end()), ini.end());
            int order = static_cast<int>(r.below(3));
            if (order == 1) { std::reverse(ini.begin(), ini.end()); }
            if (order == 2) {
                for (std::size_t i = ini.size(); i > 1; --i) { std::swap(ini[i - 1], ini[r.below(i)]); }
            }
            for (auto& k : ini) { rc.initial.emplace_back(k, next_id.fetch_add(1)); }
            if (r.chance(1, 2)) {
                std::vector<std::string> s = ini;
                std::sort(s.begin(), s.end());
                std::size_t at = r.below(s.size());
                std::size_t m = r.range(1, 9);
                for (std::size_t j = at; j < s.size() && j < at + m; ++j) { rc.pre_removed.push_back(s[j]); }
            }
        }
        // ---------------------------------------------------------------- the reader call and the burst (fixed for all k of this case)
        std::map<std::string, uint64_t> state0;
        rses.reenter();
        wses.reenter();
        build(rc, state0);
        std::vector<std::string> present0;
        for (auto& [k, id] : state0) {
            (void) id;
            present0.push_back(k);
        }
        if (present0.size() < 8) {
            yk::delete_storage(storage);
            continue;
        }
        std::size_t lo = r.below(present0.size());
        std::size_t hi = std::min(present0.size() - 1, lo + r.below(24));
        std::string lk = present0[lo], rk = present0[hi];
        scan_endpoint le = r.chance(1, 6) ? scan_endpoint::INF : (r.chance(1, 4) ? scan_endpoint::EXCLUSIVE : scan_endpoint::INCLUSIVE);
        scan_endpoint re = r.chance(1, 6) ? scan_endpoint::INF : (r.chance(1, 4) ? scan_endpoint::EXCLUSIVE : scan_endpoint::INCLUSIVE);
        if (r.chance(1, 4)) {
            // endpoints that are absent keys (gaps before the first key of a node)
            auto it = std::lower_bound(rc.uni.begin(), rc.uni.end(), rk);
            if (it + 1 < rc.uni.end()) { rk = *(it + 1); }
        }
        if (reader != "get" && r.chance(1, 4)) {
            // left endpoint on an absent key (a gap); in the layered universes sometimes the last short key before the link,
            // so that the top border contributes nothing but the link to the read
            auto it = std::lower_bound(rc.uni.begin(), rc.uni.end(), lk);
            if (rc.ukind != 0 && r.chance(1, 2)) {
                lk = "A6";
            } else if (it != rc.uni.begin() && state0.count(*(it - 1)) == 0U) {
                lk = *(it - 1);
            }
            if (lk > rk) { rk = lk; }
        }
        if (lk == rk && le != scan_endpoint::INF && re != scan_endpoint::INF) { le = re = scan_endpoint::INCLUSIVE; } // anything else is an empty range (rejected)
        bool r2l = false, early_abort = false;
        std::size_t max_size = 0;
        std::string get_key;
        if (reader == "iscan") {
            r2l = r.chance(1, 2);
            early_abort = r.chance(1, 5);
        } else if (reader == "scan") {
            if (r.chance(1, 3)) {
                r2l = true;
                max_size = 1;
                re = scan_endpoint::INF;
            } else if (r.chance(1, 3)) {
                max_size = r.range(1, 6);
            }
        } else {
            auto it = std::lower_bound(rc.uni.begin(), rc.uni.end(), lk);
            std::size_t ui = static_cast<std::size_t>(it - rc.uni.begin());
            get_key = rc.uni[std::min(rc.uni.size() - 1, ui + r.below(3))];
            lk = rk = get_key;
            le = re = scan_endpoint::INCLUSIVE;
        }
        // burst: anchored relative to the reader's range (universe index space)
        auto uidx = [&](const std::string& k) { return static_cast<std::size_t>(std::lower_bound(rc.uni.begin(), rc.uni.end(), k) - rc.uni.begin()); };
        std::size_t ulo = uidx(lk), uhi = std::min(rc.uni.size() - 1, uidx(rk));
        if (re == scan_endpoint::INF) { uhi = rc.uni.size() - 1; } // the read really extends to the right end (right-to-left scans start there)
        if (le == scan_endpoint::INF) { ulo = 0; }
        if (reader == "scan" && r2l && r.chance(2, 3)) { ulo = uhi >= 24 ? uhi - 24 : 0; } // bursts next to where a right-to-left scan actually reads
        auto make_burst = [&](std::map<std::string, uint64_t> st, int& kind_out) {
            std::vector<WOp> w;
            std::size_t anchor;
            switch (r.below(6)) {
                case 0: anchor = ulo >= 6 ? ulo - r.below(6) : 0; break;
                case 1: anchor = ulo; break;
                case 2: anchor = ulo + (uhi - ulo) / 2; break;
                case 3: anchor = uhi; break;
                case 4: anchor = std::min(rc.uni.size() - 1, uhi + r.below(6)); break;
                default: anchor = ulo + r.below(uhi - ulo + 1); break;
            }
            int kind = static_cast<int>(r.below(6));
            kind_out = kind;
            static const std::size_t ms[] = {1, 2, 8, 16, 32};
            std::size_t m = ms[r.below(kind <= 1 ? 4 : 5)];
            bool up = r.chance(1, 2);
            auto walk = [&](bool want_present, std::size_t count, std::vector<std::string>& out) {
                long i = static_cast<long>(anchor);
                while (i >= 0 && i < static_cast<long>(rc.uni.size()) && out.size() < count) {
                    bool pres = st.count(rc.uni[static_cast<std::size_t>(i)]) != 0U;
                    if (pres == want_present) { out.push_back(rc.uni[static_cast<std::size_t>(i)]); }
                    i += up ? 1 : -1;
                }
            };
            std::vector<std::string> ks;
            if (kind <= 1) { // adjacent inserts (splits)
                walk(false, m, ks);
                for (auto& k : ks) { w.push_back(WOp{true, k, next_id.fetch_add(1)}); }
            } else if (kind <= 3) { // adjacent removes (empty / unlink / collapse / retire a layer root)
                walk(true, m, ks);
                for (auto& k : ks) { w.push_back(WOp{false, k, 0}); }
            } else if (kind == 4) { // remove then reinsert (slot reuse, new bindings)
                walk(true, std::min<std::size_t>(m, 8), ks);
                for (auto& k : ks) { w.push_back(WOp{false, k, 0}); }
                for (auto& k : ks) {
                    if (r.chance(2, 3)) { w.push_back(WOp{true, k, next_id.fetch_add(1)}); }
                }
            } else { // mix
                walk(true, std::min<std::size_t>(m, 8), ks);
                for (auto& k : ks) { w.push_back(WOp{false, k, 0}); }
                std::vector<std::string> ins;
                walk(false, std::min<std::size_t>(m, 8), ins);
                for (auto& k : ins) { w.push_back(WOp{true, k, next_id.fetch_add(1)}); }
            }
            return w;
        };
        int bkind = 0, bkind2 = 0;
        std::vector<WOp> w1 = make_burst(state0, bkind);
        std::map<std::string, uint64_t> state_mid = state0;
        for (auto& op : w1) {
            if (op.ins) {
                state_mid[op.key] = op.id;
            } else {
                state_mid.erase(op.key);
            }
        }
        bool two = r.chance(1, 5);
        std::vector<WOp> w2;
        if (two) { w2 = make_burst(state_mid, bkind2); }
        if (w1.empty()) {
            yk::delete_storage(storage);
            continue;
        }
        // bindings over time
        std::map<std::string, std::set<uint64_t>> allowed; // ids the key was bound to at some instant
        std::set<std::string> touched;
        for (auto& [k, id] : state0) { allowed[k].insert(id); }
        std::map<std::string, uint64_t> state1 = state0;
        auto apply_model = [&](const std::vector<WOp>& w) {
            for (auto& op : w) {
                touched.insert(op.key);
                if (op.ins) {
                    state1[op.key] = op.id;
                    allowed[op.key].insert(op.id);
                } else {
                    state1.erase(op.key);
                }
            }
        };
        apply_model(w1);
        std::map<std::string, uint64_t> state1_after_first = state1;
        apply_model(w2);
        std::function<void()> burst1 = [&] {
            for (auto& op : w1) {
                status s = op.ins ? wput(wses.tok, op.key, op.id, true) : yk::remove(wses.tok, storage, op.key);
                if (s != status::OK) { rep.violation("preempt:writer-status", "write of the nested burst failed", JObj().str("got", st(s)).boolean("insert", op.ins).str("key", op.key).done()); }
            }
        };
        std::function<void()> burst2 = [&] {
            for (auto& op : w2) {
                status s = op.ins ? wput(wses.tok, op.key, op.id, true) : yk::remove(wses.tok, storage, op.key);
                if (s != status::OK) { rep.violation("preempt:writer-status", "write of the nested burst failed", JObj().str("got", st(s)).boolean("insert", op.ins).str("key", op.key).done()); }
            }
        };

        // ---------------------------------------------------------------- one execution of the reader
        struct Outcome {
            std::vector<std::pair<std::string, uint64_t>> items; // key, value id (0 = invalid)
            std::string problem;
            NvVec nv;
            status rc{status::OK};
            bool aborted{false};
        };
        auto run_reader = [&](Outcome& o) {
            o.items.clear();
            o.nv.clear();
            o.problem.clear();
            o.aborted = false;
            pre.count = 0;
            pre.fired = 0;
            pre.armed = true;
            if (reader == "get") {
                std::pair<char*, std::size_t> g;
                std::pair<yk::node_version64_body, yk::node_version64*> cv{};
                o.rc = yget(storage, get_key, g, &cv);
                pre.armed = false;
                if (o.rc == status::WARN_NOT_EXIST && cv.second != nullptr) { o.nv.emplace_back(cv.first, cv.second); }
                if (o.rc == status::OK) {
                    uint64_t vid = decode(get_key, g.first, g.second, true, o.problem);
                    o.items.emplace_back(get_key, vid);
                } else if (o.rc != status::WARN_NOT_EXIST) {
                    o.problem = "status " + st(o.rc);
                }
            } else if (reader == "scan") {
                std::vector<ScanTuple> tl;
                o.rc = yk::scan<char>(storage, lk, le, rk, re, tl, &o.nv, max_size, r2l);
                pre.armed = false;
                if (o.rc != status::OK && !(o.rc == status::WARN_NOT_EXIST && tl.empty())) { o.problem = "status " + st(o.rc); }
                for (auto& t : tl) {
                    uint64_t vid = decode(std::get<0>(t), std::get<1>(t), std::get<2>(t), true, o.problem);
                    o.items.emplace_back(std::get<0>(t), vid);
                }
            } else {
                std::function<bool(yk::node_version64*, yk::node_version64_body)> cb = [&o](yk::node_version64* p, yk::node_version64_body b) {
                    o.nv.emplace_back(b, p);
                    return false;
                };
                std::vector<CursorItem> items;
                // values are validated as they are produced (the reader's session stays open)
                yk::iscan_context* ctx = nullptr;
                void* v = nullptr;
                alloc::watch_window(true);
                status s = yk::iscan_open(storage, lk, le, rk, re, r2l, early_abort, ctx, v, cb);
                alloc::watch_window(false);
                std::size_t guard = 0;
                while (s == status::OK && guard++ < 5000) {
                    std::string fk = ctx->full_key();
                    uint64_t vid = decode(fk, static_cast<char*>(v), 0, false, o.problem);
                    o.items.emplace_back(fk, vid);
                    s = yk::iscan_next(ctx, v, cb);
                }
                pre.armed = false;
                if (ctx != nullptr) { yk::iscan_close(ctx); }
                o.rc = s;
                if (guard >= 5000) { o.problem = "cursor produced more than 5000 entries"; }
                if (s == status::WARN_CONCURRENT_OPERATIONS && early_abort) {
                    o.aborted = true;
                } else if (s != status::OK_SCAN_END) {
                    o.problem = "status " + st(s);
                }
                if (r2l) { std::reverse(o.items.begin(), o.items.end()); }
            }
            pre.armed = false;
        };

        // undisturbed run: K and the reference result
        Outcome ref;
        pre.burst = nullptr;
        pre.burst2 = nullptr;
        pre.fire_at = pre.fire_at2 = 0;
        run_reader(ref);
        g_progress.fetch_add(1, std::memory_order_relaxed);
        uint64_t K = pre.count;
        yk::delete_storage(storage);
        if (!ref.problem.empty()) {
            rep.violation("preempt:undisturbed-reader-failed", "reader failed without any concurrent operation: " + ref.problem, JObj().str("reader", reader).num("case", cs).done());
            continue;
        }
        if (K == 0) { continue; }
        std::vector<uint64_t> points;
        if (K <= max_points) {
            for (uint64_t k = 1; k <= K; ++k) { points.push_back(k); }
        } else {
            for (uint64_t k = 1; k <= 8; ++k) { points.push_back(k); }
            for (uint64_t k = K - 7; k <= K; ++k) { points.push_back(k); }
            while (points.size() < max_points) { points.push_back(r.range(9, K - 8)); }
            std::sort(points.begin(), points.end());
            points.erase(std::unique(points.begin(), points.end()), points.end());
        }
        rep.maxc("max_shared_accesses_in_one_reader_call", K);
        rep.count("cases");
        for (uint64_t kstar : points) {
            if (rep.violations() >= 12) { break; }
            std::map<std::string, uint64_t> st_now;
            build(rc, st_now);
            pre.burst = &burst1;
            pre.fire_at = kstar;
            pre.burst2 = two ? &burst2 : nullptr;
            pre.fire_at2 = two ? kstar + r.range(1, 40) : 0;
            Outcome o;
            run_reader(o);
            ++executions;
            g_progress.fetch_add(1, std::memory_order_relaxed);
            rep.eval();
            bool fired1 = pre.fired >= 1;
            bool fired2 = pre.fired >= 2;
            // what actually happened (the second burst may not have been reached)
            const std::map<std::string, uint64_t>& final_state = fired2 ? state1 : (fired1 ? state1_after_first : state0);
            if (!fired1) { rep.count("executions_where_the_access_was_not_reached"); }
            if (!fired2 && two && fired1) {
                // bring the tree to state1 anyway? no: judge against what happened
            }
            auto describe = [&]() {
                JObj d;
                d.str("reader", reader).boolean("inline_values", inline_mode).num("case", cs).num("universe", static_cast<uint64_t>(rc.ukind)).num("preempted_at_access", kstar).num("accesses_undisturbed", K).num("burst_kind", static_cast<uint64_t>(bkind)).num("burst_ops", w1.size());
                d.boolean("second_burst", fired2).str("l_key", lk).str("r_key", rk).num("l_end", static_cast<uint64_t>(le)).num("r_end", static_cast<uint64_t>(re)).boolean("right_to_left", r2l).num("max_size", max_size).boolean("early_abort", early_abort);
                d.num("result_keys", o.items.size()).num("set_size", o.nv.size()).str("first_burst_key", w1[0].key).boolean("first_burst_op_is_insert", w1[0].ins);
                return d;
            };
            std::string P = "preempt:" + reader + ":";
            // keys touched by what actually ran
            std::set<std::string> touched_now, inserted_now;
            auto mark = [&](const std::vector<WOp>& w) {
                for (auto& op : w) {
                    touched_now.insert(op.key);
                    if (op.ins && state0.count(op.key) == 0U) { inserted_now.insert(op.key); }
                }
            };
            if (fired1) { mark(w1); }
            if (fired2) { mark(w2); }
            for (auto it = inserted_now.begin(); it != inserted_now.end();) {
                it = final_state.count(*it) == 0U ? inserted_now.erase(it) : std::next(it);
            }
            if (!o.problem.empty()) {
                rep.violation(P + (o.problem.rfind("value", 0) == 0 ? "invalid-value" : "status"), "reader preempted at one shared access by a burst of complete writes failed: " + o.problem, describe().done());
            } else if (want_cons) {
                if (reader == "get") {
                    bool ok;
                    bool was_touched = touched_now.count(get_key) != 0U;
                    if (o.rc == status::OK) {
                        // the value must be a binding the key had during the call; without a write to the key: the only one
                        ok = allowed[get_key].count(o.items[0].second) != 0U && (was_touched || (state0.count(get_key) != 0U && state0[get_key] == o.items[0].second));
                    } else {
                        // absent at some instant: absent before, or removed by a burst that ran
                        bool removed_now = false;
                        auto look = [&](const std::vector<WOp>& w) {
                            for (auto& op : w) {
                                if (!op.ins && op.key == get_key) { removed_now = true; }
                            }
                        };
                        if (fired1) { look(w1); }
                        if (fired2) { look(w2); }
                        ok = state0.count(get_key) == 0U || removed_now;
                    }
                    if (!ok) { rep.violation(P + "not-a-binding-of-the-key", "get returned a result the key never had during the call", describe().str("status", st(o.rc)).done()); }
                } else {
                    bool mono = true, inside = true, bound = true;
                    for (std::size_t i = 0; i < o.items.size(); ++i) {
                        if (i > 0 && !(o.items[i - 1].first < o.items[i].first)) { mono = false; }
                        if (!in_interval(o.items[i].first, lk, le, rk, re)) { inside = false; }
                        auto ait = allowed.find(o.items[i].first);
                        if (ait == allowed.end() || ait->second.count(o.items[i].second) == 0U) { bound = false; }
                        // a key that nothing touched must carry its only binding
                    }
                    if (!mono) { rep.violation(P + "not-strictly-monotone", "result contains a key twice or out of order", describe().done()); }
                    if (!inside) { rep.violation(P + "key-outside-interval", "result contains a key outside the requested interval", describe().done()); }
                    if (!bound) { rep.violation(P + "value-never-bound-to-key", "result pairs a key with a value it never had (or a key that never existed)", describe().done()); }
                    if (max_size != 0 && o.items.size() > max_size) { rep.violation(P + "more-than-max-size", "more entries than max_size", describe().done()); }
                    // stable keys
                    std::vector<std::string> stable;
                    for (auto& [k, id] : state0) {
                        (void) id;
                        if (touched_now.count(k) == 0U && in_interval(k, lk, le, rk, re)) { stable.push_back(k); }
                    }
                    std::set<std::string> got;
                    for (auto& it : o.items) { got.insert(it.first); }
                    std::string missing;
                    if (reader == "scan" && r2l) {
                        if (!stable.empty() && (o.items.empty() || o.items[0].first < stable.back())) { missing = stable.back(); }
                    } else {
                        bool limited_full = max_size != 0 && o.items.size() >= max_size;
                        for (auto& k : stable) {
                            if (o.aborted) {
                                // early abort: everything up to the last produced key (in cursor direction) must be there
                                if (o.items.empty()) { break; }
                                if (!r2l && k > o.items.back().first) { break; }
                                if (r2l && k < o.items.front().first) { continue; }
                            }
                            if (limited_full && k > o.items.back().first) { break; }
                            if (got.count(k) == 0U) {
                                missing = k;
                                break;
                            }
                        }
                    }
                    if (!missing.empty()) {
                        rep.violation(P + "stable-key-missing", "a key that was present and untouched for the whole call is not in the result", describe().str("missing", missing).done());
                    }
                }
            }
            // freshness of the collected set
            bool fresh = true;
            for (auto& [body, ptr] : o.nv) {
                if (ptr->get_stable_version() != body) { fresh = false; }
            }
            // (a get that reported WARN_NOT_EXIST with a checked version is a read of the one-point interval [key,key])
            if ((reader != "get" || (o.rc == status::WARN_NOT_EXIST && !o.nv.empty())) && o.problem.empty() && (want_phantom || want_post) && !o.aborted) {
                // (a cursor over a one-point range whose key exists reports nothing by design: there is no absent key to protect)
                if (o.nv.empty() && reader == "scan") { rep.violation(P + "empty-version-set", "reader collected no node version", describe().done()); }
                // covered interval: whole interval, or up to the last returned key for a size-limited scan
                std::string cover_hi;
                bool limited_full = max_size != 0 && o.items.size() >= max_size && !r2l;
                if (limited_full) { cover_hi = o.items.back().first; }
                if (want_phantom && fresh && !(reader == "scan" && r2l)) {
                    std::set<std::string> got;
                    for (auto& it : o.items) { got.insert(it.first); }
                    for (auto& k : inserted_now) {
                        if (!in_interval(k, lk, le, rk, re)) { continue; }
                        if (limited_full && k > cover_hi) { continue; }
                        if (got.count(k) == 0U) {
                            rep.violation(P + "insert-missed-with-fresh-version-set", "every collected (version,node) pair is unchanged after the call, yet a key inserted into the covered interval during the call is not in the result",
                                          describe().str("inserted", k).done());
                            break;
                        }
                    }
                }
                if (want_post && fresh && !o.nv.empty() && !(reader == "scan" && r2l)) {
                    std::vector<std::string> cand;
                    for (auto& k : rc.uni) {
                        if (final_state.count(k) != 0U || !in_interval(k, lk, le, rk, re)) { continue; }
                        if (limited_full && k > cover_hi) { continue; }
                        cand.push_back(k);
                    }
                    if (!cand.empty()) {
                        const std::string& pk = cand[r.below(cand.size())];
                        status ps = wput(wses.tok, pk, next_id.fetch_add(1), true);
                        if (ps == status::OK) {
                            rep.count("post_inserts_checked");
                            bool stale = false;
                            for (auto& [body, ptr] : o.nv) {
                                if (ptr->get_stable_version() != body) { stale = true; }
                            }
                            if (!stale) {
                                rep.violation(P + "post-insert-undetected", "after a preempted read whose set was still fresh, an insert into the covered interval left every recorded pair fresh", describe().str("post_inserted", pk).done());
                            }
                            yk::remove(wses.tok, storage, pk);
                        }
                    }
                }
            }
            bool changed = o.items != ref.items;
            if (changed) { ++changed_results; }
            if (pre.count > K + 8) { ++retried; }
            if (fired1) {
                uint64_t q = K == 0 ? 0 : (kstar * 8) / (K + 1);
                rep.distinct(mix64(static_cast<uint64_t>(rc.ukind), mix64(static_cast<uint64_t>(bkind), mix64(q, (changed ? 1 : 0) + (fresh ? 2 : 0) + (fired2 ? 4 : 0) + (r2l ? 8 : 0)))));
            }
            if (executions % 97 == 0 && fired1 && !inline_mode) {
                // quiescent structure + model equality on a sample (bring the model to what actually ran)
                Model model;
                for (auto& [k, id] : final_state) { model[k] = make_value(id, k, VLEN); }
                coherence_check(rep, storage, model, alloc::mode() == alloc::Mode::FULL, nullptr);
            }
            if (rep.get("samples_taken") < 2 && fired1 && changed) {
                rep.count("samples_taken");
                rep.sample(describe().done());
            }
            yk::delete_storage(storage);
            if (executions % 16 == 0) {
                rses.reenter();
                wses.reenter();
            }
        }
        rses.leave();
        wses.leave();
    }
    t_pre = nullptr;
    ctl::install();
    rep.count("executions", executions);
    rep.count("executions_whose_result_differs_from_the_undisturbed_run", changed_results);
    rep.count("executions_where_the_reader_retried", retried);
    yk::fin();
    drain_alloc_problems(rep);
    if (executions < 50) { rep.inconclusive("fewer than 50 preempted executions"); }
    return rep.finish();
}

// ---------------------------------------------------------------------------
// Writer variant: ONE put / unique-put / remove is preempted at an access of
// its optimistic (lock-free) part - descent, slot lookup, the moment just
// before it takes the node lock, the gaps between hand-over-hand locks - by a
// burst of complete writes of another session next to its key. Oracles:
//   C01  the statuses of all operations and the final content equal a
//        sequential execution in which the outer operation takes effect at
//        some position of the burst;
//   C08  walker on the final tree;
//   C12  (inserting puts only) version conservation: for every border that
//        existed before, insert-counter delta == number of puts (outer and
//        nested) that reported it as modified, split-counter delta == number
//        of those reports naming a created node.
int run_preempt_writer(const Args& a) {
    uint64_t seed = a.num("seed", 1);
    uint64_t cases = a.num("cases", 300);
    std::string oracle = a.str("oracle", "linearizable,structure");
    bool want_lin = oracle.find("linearizable") != std::string::npos;
    bool want_struct = oracle.find("structure") != std::string::npos;
    bool want_ni = oracle.find("nodeinfo") != std::string::npos;
    uint64_t max_points = a.num("points", 40);
    Report rep(a.str("prop", "C01"), "preempt_writer", seed);
    rep.set_rule("preemption explorer, writer variant: per case a small tree and ONE outer operation (put / unique put / remove of a present or absent key; first, middle, last entry of a node, nodes of different fill, sub-layers); it is run undisturbed "
                 "to record at which of its shared accesses it holds no lock, then re-run on an identically rebuilt tree once per such access k: before that access the hook runs a burst of complete writes of another session next to the key "
                 "(the same key inserted / removed / re-inserted, 1..16 adjacent inserts that split the node, removes that empty it, mixes). Oracles [" + oracle + "]: statuses of all operations and the final content equal a sequential execution with the "
                 "outer operation at some position of the burst; walker; for inserting puts the version counters of every pre-existing border equal the number of reports naming it. distinct_nontrivial = executions by (outer op, burst kind, "
                 "relative position of k, position at which the outer operation took effect)");
    yk::init();
    yakushima::verif::set_hook(&pre_hook);
    Pre pre;
    pre.writer_mode = true;
    t_pre = &pre;
    Rng r(seed);
    std::string storage = "pw";
    std::atomic<uint64_t> next_id{1};
    Session oses; // the outer writer's session
    Session wses; // the nested writers' session
    uint64_t executions = 0;
    const std::size_t VLEN = 24;
    struct BOp {
        int kind; // 0 unique insert, 1 upsert, 2 remove
        std::string key;
        uint64_t id;
        status got{status::OK};
        yk::inserted_node_info ini{};
    };
    for (uint64_t cs = 0; cs < cases && rep.violations() < 12; ++cs) {
        int ukind = static_cast<int>(r.below(3));
        std::size_t n = r.chance(1, 6) ? r.range(150, 300) : r.range(6, 70);
        std::string pfx = ukind == 0 ? "" : (ukind == 1 ? "LAYER001" : "PREFIX8B");
        std::vector<std::string> uni;
        for (std::size_t i = 0; i < n * 4; ++i) {
            char b[16];
            snprintf(b, sizeof b, "%05zu", i);
            uni.push_back(pfx + (ukind == 0 ? "k" : "") + b);
        }
        if (ukind == 2) { uni.push_back(pfx); }
        std::sort(uni.begin(), uni.end());
        std::vector<std::pair<std::string, uint64_t>> initial;
        {
            std::vector<std::string> ini;
            for (std::size_t i = 0; i < uni.size(); ++i) {
                if (i % 4 == 0) { ini.push_back(uni[i]); }
            }
            for (int d = 0; d < 2; ++d) {
                if (r.chance(1, 2)) {
                    std::size_t at = r.below(uni.size());
                    std::size_t m = r.range(4, 14);
                    for (std::size_t j = at; j < uni.size() && j < at + m; ++j) { ini.push_back(uni[j]); }
                }
            }
            std::sort(ini.begin(), ini.end());
            ini.erase(std::unique(ini.begin(), ini.end()), ini.end());
            if (r.chance(1, 3)) { std::reverse(ini.begin(), ini.end()); }
            for (auto& k : ini) { initial.emplace_back(k, next_id.fetch_add(1)); }
        }
        auto build = [&](std::map<std::string, uint64_t>& st) {
            yk::create_storage(storage);
            st.clear();
            for (auto& [k, id] : initial) {
                yput(wses.tok, storage, k, make_value(id, k, VLEN));
                st[k] = id;
            }
        };
        oses.reenter();
        wses.reenter();
        std::map<std::string, uint64_t> state0;
        build(state0);
        // the outer operation
        std::size_t ui = r.below(uni.size());
        std::string okey = uni[ui];
        int okind = want_ni ? 0 : static_cast<int>(r.below(3)); // 0 unique insert, 1 upsert, 2 remove
        if (want_ni && state0.count(okey) != 0U) {
            // an inserting put: pick an absent key
            for (std::size_t t = 0; t < uni.size() && state0.count(okey) != 0U; ++t) { okey = uni[(ui + t) % uni.size()]; }
        }
        uint64_t oid = next_id.fetch_add(1);
        // the burst (next to the key; the key itself is a likely target)
        std::vector<BOp> burst;
        int bkind = static_cast<int>(r.below(want_ni ? 3 : 7));
        {
            std::map<std::string, uint64_t> st = state0;
            std::size_t anchor = std::min(uni.size() - 1, ui + r.below(3)) - std::min<std::size_t>(ui, r.below(3));
            static const std::size_t ms[] = {1, 2, 8, 16};
            std::size_t m = ms[r.below(4)];
            auto near_keys = [&](bool want_present, std::size_t count) {
                std::vector<std::string> out;
                bool up = r.chance(1, 2);
                for (long i = static_cast<long>(anchor); i >= 0 && i < static_cast<long>(uni.size()) && out.size() < count; i += up ? 1 : -1) {
                    if ((st.count(uni[static_cast<std::size_t>(i)]) != 0U) == want_present) { out.push_back(uni[static_cast<std::size_t>(i)]); }
                }
                return out;
            };
            auto add = [&](int kind, const std::string& k) {
                BOp op{kind, k, kind == 2 ? 0 : next_id.fetch_add(1)};
                burst.push_back(op);
                if (kind == 2) {
                    st.erase(k);
                } else if (kind == 1 || st.count(k) == 0U) {
                    st[k] = op.id;
                }
            };
            switch (bkind) {
                case 0: // adjacent inserts (split the node the outer op is about to lock)
                    for (auto& k : near_keys(false, m)) { add(0, k); }
                    break;
                case 1: // the very same key by a unique insert (+ neighbours)
                    add(0, okey);
                    for (auto& k : near_keys(false, m / 2)) { add(0, k); }
                    break;
                case 2: // upsert of the same key and of neighbours
                    add(1, okey);
                    for (auto& k : near_keys(true, m / 2)) { add(1, k); }
                    break;
                case 3: // removes that empty the node
                    for (auto& k : near_keys(true, m)) { add(2, k); }
                    break;
                case 4: // remove the key, re-insert it (slot and node reuse)
                    add(2, okey);
                    add(0, okey);
                    break;
                case 5: // insert the key, remove it again
                    add(0, okey);
                    add(2, okey);
                    for (auto& k : near_keys(false, m / 2)) { add(0, k); }
                    break;
                default: // mix
                    for (auto& k : near_keys(true, m / 2 + 1)) { add(2, k); }
                    for (auto& k : near_keys(false, m / 2 + 1)) { add(0, k); }
                    add(1, okey);
                    break;
            }
        }
        if (burst.empty()) {
            yk::delete_storage(storage);
            oses.leave();
            wses.leave();
            continue;
        }
        auto run_bop = [&](BOp& op) {
            std::string v = op.kind == 2 ? std::string() : make_value(op.id, op.key, VLEN);
            op.ini = yk::inserted_node_info{};
            if (op.kind == 2) {
                op.got = yk::remove(wses.tok, storage, op.key);
            } else {
                op.got = yk::put<char>(wses.tok, storage, op.key, v.data(), v.size(), static_cast<char**>(nullptr), static_cast<yk::value_align_type>(8), op.kind == 0, &op.ini);
            }
        };
        std::function<void()> burst_fn = [&] {
            for (auto& op : burst) { run_bop(op); }
        };
        status ogot = status::OK;
        yk::inserted_node_info oini{};
        auto run_outer = [&]() {
            pre.count = 0;
            pre.fired = 0;
            pre.held = 0;
            pre.pending = false;
            pre.nodes0 = alloc::counters().node_allocs;
            std::string v = make_value(oid, okey, VLEN);
            oini = yk::inserted_node_info{};
            pre.armed = true;
            if (okind == 2) {
                ogot = yk::remove(oses.tok, storage, okey);
            } else {
                ogot = yk::put<char>(oses.tok, storage, okey, v.data(), v.size(), static_cast<char**>(nullptr), static_cast<yk::value_align_type>(8), okind == 0, &oini);
            }
            pre.armed = false;
        };
        // undisturbed run: where is the operation lock-free?
        std::vector<uint64_t> eligible;
        pre.eligible = &eligible;
        pre.burst = nullptr;
        pre.fire_at = 0;
        run_outer();
        pre.eligible = nullptr;
        g_progress.fetch_add(1, std::memory_order_relaxed);
        yk::delete_storage(storage);
        if (eligible.empty()) {
            oses.leave();
            wses.leave();
            continue;
        }
        std::vector<uint64_t> points;
        if (eligible.size() <= max_points) {
            points = eligible;
        } else {
            for (std::size_t i = 0; i < 6; ++i) { points.push_back(eligible[i]); }
            for (std::size_t i = eligible.size() - 10; i < eligible.size(); ++i) { points.push_back(eligible[i]); }
            while (points.size() < max_points) { points.push_back(eligible[r.below(eligible.size())]); }
            std::sort(points.begin(), points.end());
            points.erase(std::unique(points.begin(), points.end()), points.end());
        }
        rep.count("cases");
        rep.maxc("max_lock_free_accesses_in_one_writer_call", eligible.size());
        for (uint64_t kstar : points) {
            if (rep.violations() >= 12) { break; }
            std::map<std::string, uint64_t> st_now;
            build(st_now);
            yk::tree_instance* ti = nullptr;
            yk::find_storage(storage, &ti);
            std::map<yk::border_node*, uint64_t> before_versions;
            if (want_ni) {
                Walker w0(false);
                before_versions = w0.walk(ti).border_versions;
            }
            pre.burst = &burst_fn;
            pre.fire_at = kstar;
            run_outer();
            ++executions;
            g_progress.fetch_add(1, std::memory_order_relaxed);
            rep.eval();
            bool fired = pre.fired >= 1;
            if (!fired) { rep.count("executions_where_the_access_was_not_reached"); }
            auto describe = [&]() {
                JObj d;
                static const char* kn[] = {"unique-put", "put", "remove"};
                d.num("case", cs).num("universe", static_cast<uint64_t>(ukind)).str("outer_op", kn[okind]).str("key", okey).boolean("key_present_before", state0.count(okey) != 0U).str("outer_status", st(ogot));
                d.num("preempted_at_access", kstar).num("lock_free_accesses", eligible.size()).num("burst_kind", static_cast<uint64_t>(bkind)).num("burst_ops", burst.size()).boolean("burst_ran", fired);
                return d;
            };
            // final content as the API shows it
            std::map<std::string, uint64_t> final_content;
            std::string content_problem;
            {
                std::vector<ScanTuple> tl;
                yk::scan<char>(storage, "", scan_endpoint::INF, "", scan_endpoint::INF, tl, nullptr, 0, false);
                for (auto& t : tl) {
                    uint64_t vid = 0;
                    ValCheck vc = check_value(std::get<1>(t), std::get<2>(t), std::get<0>(t), vid);
                    if (vc != ValCheck::OK && content_problem.empty()) { content_problem = std::string("value ") + valcheck_name(vc) + " for key " + std::get<0>(t); }
                    if (!final_content.emplace(std::get<0>(t), vid).second && content_problem.empty()) { content_problem = "key " + std::get<0>(t) + " listed twice"; }
                }
            }
            if (!content_problem.empty()) { rep.violation("preempt:writer:final-content-invalid", content_problem, describe().done()); }
            int took_effect_at = -1;
            if (want_lin && content_problem.empty()) {
                // sequential executions: outer op at position j of the burst (j = 0 .. size); without a burst: alone
                std::size_t positions = fired ? burst.size() + 1 : 1;
                for (std::size_t j = 0; j < positions && took_effect_at < 0; ++j) {
                    std::map<std::string, uint64_t> m = state0;
                    bool ok = true;
                    auto apply = [&](int kind, const std::string& k, uint64_t id, status got) {
                        bool present = m.count(k) != 0U;
                        status want;
                        if (kind == 2) {
                            want = present ? status::OK : status::OK_NOT_FOUND;
                            m.erase(k);
                        } else if (kind == 0) {
                            want = present ? status::WARN_UNIQUE_RESTRICTION : status::OK;
                            if (!present) { m[k] = id; }
                        } else {
                            want = status::OK;
                            m[k] = id;
                        }
                        if (want != got) { ok = false; }
                    };
                    for (std::size_t i = 0; i <= (fired ? burst.size() : 0); ++i) {
                        if (i == j) { apply(okind, okey, oid, ogot); }
                        if (fired && i < burst.size()) { apply(burst[i].kind, burst[i].key, burst[i].id, burst[i].got); }
                    }
                    if (ok && m == final_content) { took_effect_at = static_cast<int>(j); }
                }
                if (took_effect_at < 0) {
                    std::vector<std::string> bs;
                    for (auto& op : burst) { bs.push_back(JObj().num("kind", static_cast<uint64_t>(op.kind)).str("key", op.key).str("status", st(op.got)).done()); }
                    rep.violation("preempt:writer:not-linearizable", "statuses and final content match no sequential execution in which the preempted operation takes effect at some position of the burst",
                                  describe().num("keys_in_final_content", final_content.size()).raw("burst", jarr(bs)).done());
                }
            }
            if (want_struct || want_ni) {
                Walker w(alloc::mode() == alloc::Mode::FULL);
                WalkResult wr = w.walk(ti);
                if (want_struct) {
                    for (auto& [ek, ed] : wr.errors) { rep.violation("walker:" + ek, "structure after a writer was preempted in its lock-free part by a burst of writes", ed); }
                    if (wr.entries.size() != final_content.size()) { rep.violation("preempt:writer:walker-and-scan-disagree", "number of entries reachable by the walker differs from the full scan", describe().num("walker", wr.entries.size()).num("scan", final_content.size()).done()); }
                }
                if (want_ni) {
                    std::map<yk::node_version64*, std::pair<uint64_t, uint64_t>> reports;
                    auto note = [&](status got, const yk::inserted_node_info& ini) {
                        if (got != status::OK || ini.modified_nvp == nullptr) { return; }
                        auto& e = reports[ini.modified_nvp];
                        ++e.first;
                        if (ini.created_nvp != nullptr) { ++e.second; }
                    };
                    if (okind != 2) { note(ogot, oini); }
                    bool has_remove = false;
                    if (fired) {
                        for (auto& op : burst) {
                            if (op.kind == 2) {
                                has_remove = true;
                            } else {
                                note(op.got, op.ini);
                            }
                        }
                    }
                    if (!has_remove) {
                        for (auto& [b, vw0] : before_versions) {
                            auto it = wr.border_versions.find(b);
                            if (it == wr.border_versions.end()) { continue; }
                            yk::node_version64_body b0, b1; // NOLINT
                            memcpy(&b0, &vw0, sizeof vw0);
                            memcpy(&b1, &it->second, sizeof vw0);
                            uint64_t d_ins = (b1.get_vinsert_delete() - b0.get_vinsert_delete()) & ((1U << 29) - 1);
                            uint64_t d_spl = (b1.get_vsplit() - b0.get_vsplit()) & ((1U << 29) - 1);
                            auto rit = reports.find(b->get_version_ptr());
                            uint64_t n_rep = rit == reports.end() ? 0 : rit->second.first;
                            uint64_t n_spl = rit == reports.end() ? 0 : rit->second.second;
                            if (d_ins != n_rep || d_spl != n_spl) {
                                rep.violation(d_ins > n_rep || d_spl > n_spl ? "preempt:writer:version-changed-without-report" : "preempt:writer:report-without-version-change",
                                              "a pre-existing border's version counters do not equal the number of puts (preempted and nested) that reported it",
                                              describe().num("insert_counter_delta", d_ins).num("reports_as_modified", n_rep).num("split_counter_delta", d_spl).num("reports_with_created_node", n_spl).done());
                            }
                        }
                    }
                }
            }
            if (fired) {
                uint64_t q = (std::lower_bound(eligible.begin(), eligible.end(), kstar) - eligible.begin()) * 8 / (eligible.size() + 1);
                rep.distinct(mix64(static_cast<uint64_t>(okind), mix64(static_cast<uint64_t>(bkind), mix64(q, static_cast<uint64_t>(took_effect_at + 2)))));
            }
            if (rep.get("samples_taken") < 2 && fired) {
                rep.count("samples_taken");
                rep.sample(describe().num("took_effect_at_position", static_cast<uint64_t>(took_effect_at < 0 ? 999 : took_effect_at)).done());
            }
            yk::delete_storage(storage);
            if (executions % 16 == 0) {
                oses.reenter();
                wses.reenter();
            }
        }
        oses.leave();
        wses.leave();
    }
    t_pre = nullptr;
    ctl::install();
    rep.count("executions", executions);
    yk::fin();
    drain_alloc_problems(rep);
    if (executions < 50) { rep.inconclusive("fewer than 50 preempted executions"); }
    return rep.finish();
}

// ---------------------------------------------------------------------------
// Park explorer (two real threads): writer A is parked at its k-th hook event -
// any point, also while it holds node locks or the root lock - and exactly then
// a second thread B starts a burst of writes next to A's key. A resumes when B
// has finished or after a bounded pause (B may be blocked on a lock A holds; it
// then continues concurrently). For every k of A's operation (or a sample).
// This is the systematic form of "stall after a lock release and let the other
// writer in": it reaches the gaps between two statements of a writer's critical
// path without a harness written for one particular tree shape.
// Oracles: sequential equivalence as in the writer variant (sound: A may take
// effect anywhere relative to B's program-ordered burst), walker, final content.
namespace {
struct Park {
    bool armed{false};
    uint64_t count{0};
    uint64_t park_at{0};
    uint32_t pause_us{200};
    std::atomic<uint64_t>* go{nullptr};
    std::atomic<uint64_t>* done{nullptr};
    uint64_t gen{0};
    bool parked{false};
};
thread_local Park* t_park = nullptr; // NOLINT

bool park_hook(yakushima::verif::point p, const void* /*obj*/) {
    Park* s = t_park;
    if (s == nullptr || !s->armed) { return false; }
    using yakushima::verif::point;
    if (p != point::ATOMIC && p != point::LOCK_ACQ && p != point::LOCK_REL && p != point::ROOT_ACQ && p != point::ROOT_REL) { return false; }
    ++s->count;
    if (s->count == s->park_at && s->go != nullptr) {
        s->parked = true;
        s->go->store(s->gen, std::memory_order_release);
        double t0 = now_s();
        while (s->done->load(std::memory_order_acquire) != s->gen && (now_s() - t0) * 1e6 < s->pause_us) { _mm_pause(); }
    }
    return false;
}
} // namespace

int run_park(const Args& a) {
    uint64_t seed = a.num("seed", 1);
    uint64_t cases = a.num("cases", 300);
    uint64_t max_points = a.num("points", 40);
    Report rep(a.str("prop", "C08"), "park_explorer", seed);
    rep.mute_result_oracles(a.num("progress_only", 0) != 0); // C09 runs: only "every call returns"
    rep.set_rule("park explorer: per case a tree of 20..400 keys in which a random region was thinned to leaves with a single key (so that removes collapse nodes and inserts next to full nodes split them) and ONE writer operation A; A is run "
                 "undisturbed to count its K hook events (shared accesses, lock acquisitions and releases), then re-run on an identically rebuilt tree once per chosen k: at its k-th event - wherever that is, also inside its critical "
                 "sections - A is parked for at most 50..400 us and a second thread starts a burst of writes next to A's key (singleton removes that collapse the sibling / parent, inserts that split the neighbour / parent, the same key); "
                 "A resumes when the burst is done or the pause is over. Oracles: statuses and final content equal a sequential execution with A at some position of the burst; walker (parent pointers, separators, leaf chain); every acknowledged key "
                 "reachable. distinct_nontrivial = executions by (A's op, burst kind, relative position of k, whether the burst finished inside the pause)");
    yk::init();
    yakushima::verif::set_hook(&park_hook);
    Park park;
    t_park = &park;
    Rng r(seed);
    std::string storage = "pk";
    std::atomic<uint64_t> next_id{1};
    const std::size_t VLEN = 24;
    struct BOp {
        int kind; // 0 unique insert, 1 upsert, 2 remove
        std::string key;
        uint64_t id;
        status got{status::OK};
    };
    std::vector<BOp> burst;
    std::atomic<uint64_t> go{0}, done{0};
    std::atomic<bool> quit{false};
    park.go = &go;
    park.done = &done;
    std::thread bthread([&] {
        alloc::set_role(alloc::ROLE_WORKER);
        Session bs;
        uint64_t seen = 0;
        for (;;) {
            uint64_t g = 0;
            for (uint64_t w = 0; (g = go.load(std::memory_order_acquire)) == seen && !quit.load(); ++w) {
                if (w < 2000) {
                    _mm_pause();
                } else {
                    std::this_thread::sleep_for(std::chrono::microseconds(20));
                }
            }
            if (quit.load()) { break; }
            seen = g;
            bs.reenter();
            for (auto& op : burst) {
                std::string v = op.kind == 2 ? std::string() : make_value(op.id, op.key, VLEN);
                op.got = op.kind == 2 ? yk::remove(bs.tok, storage, op.key) : yput(bs.tok, storage, op.key, v, op.kind == 0, 8);
            }
            bs.leave();
            done.store(g, std::memory_order_release);
        }
    });
    Session oses, wses;
    uint64_t executions = 0, finished_inside = 0;
    for (uint64_t cs = 0; cs < cases && rep.violations() < 12; ++cs) {
        int ukind = static_cast<int>(r.below(2));
        std::size_t n = r.chance(1, 3) ? r.range(100, 400) : r.range(20, 90);
        std::string pfx = ukind == 0 ? "" : "LAYER001";
        std::vector<std::string> uni;
        for (std::size_t i = 0; i < n * 2; ++i) {
            char b[16];
            snprintf(b, sizeof b, "%05zu", i);
            uni.push_back(pfx + (ukind == 0 ? "k" : "") + b);
        }
        std::vector<std::pair<std::string, uint64_t>> initial;
        std::vector<std::string> thin;
        for (std::size_t i = 0; i < uni.size(); i += 2) { initial.emplace_back(uni[i], next_id.fetch_add(1)); }
        {
            // ascending build gives leaves of 8 keys; thin a region to single-key leaves (keep the first key of every 8)
            std::size_t present = initial.size();
            std::size_t from = r.below(present), len = r.range(16, 80);
            for (std::size_t i = from; i < present && i < from + len; ++i) {
                if (i % 8 != 0 || r.chance(1, 6)) { thin.push_back(initial[i].first); }
            }
        }
        std::map<std::string, uint64_t> state0;
        auto build = [&]() {
            yk::create_storage(storage);
            state0.clear();
            for (auto& [k, id] : initial) {
                yput(wses.tok, storage, k, make_value(id, k, VLEN));
                state0[k] = id;
            }
            for (auto& k : thin) {
                yk::remove(wses.tok, storage, k);
                state0.erase(k);
            }
        };
        oses.reenter();
        wses.reenter();
        build();
        std::vector<std::string> present0;
        for (auto& [k, id] : state0) {
            (void) id;
            present0.push_back(k);
        }
        if (present0.size() < 6) {
            yk::delete_storage(storage);
            oses.leave();
            wses.leave();
            continue;
        }
        // A's operation: mostly in / next to the thinned region
        std::string okey;
        int okind;
        {
            std::string anchor = !thin.empty() && r.chance(3, 4) ? thin[r.below(thin.size())] : uni[r.below(uni.size())];
            auto it = std::lower_bound(present0.begin(), present0.end(), anchor);
            if (it == present0.end()) { --it; }
            if (r.chance(1, 2)) {
                okind = 2; // remove a (likely single) key: empties its leaf, may collapse interiors
                okey = *it;
            } else {
                okind = r.chance(1, 2) ? 0 : 1;
                okey = r.chance(1, 2) ? anchor : *it; // absent (insert) or present (unique fails / overwrite)
            }
        }
        uint64_t oid = next_id.fetch_add(1);
        // B's burst next to it
        int bkind = static_cast<int>(r.below(5));
        burst.clear();
        {
            std::map<std::string, uint64_t> stt = state0;
            std::size_t ui = static_cast<std::size_t>(std::lower_bound(uni.begin(), uni.end(), okey) - uni.begin());
            static const std::size_t ms[] = {1, 2, 4, 8, 16};
            std::size_t m = ms[r.below(5)];
            bool up = r.chance(1, 2);
            auto near_keys = [&](bool want_present, std::size_t count, std::size_t skip) {
                std::vector<std::string> out;
                long i = static_cast<long>(ui) + (up ? static_cast<long>(skip) : -static_cast<long>(skip));
                for (; i >= 0 && i < static_cast<long>(uni.size()) && out.size() < count; i += up ? 1 : -1) {
                    if ((stt.count(uni[static_cast<std::size_t>(i)]) != 0U) == want_present) { out.push_back(uni[static_cast<std::size_t>(i)]); }
                }
                return out;
            };
            auto add = [&](int kind, const std::string& k) {
                burst.push_back(BOp{kind, k, kind == 2 ? 0 : next_id.fetch_add(1)});
                if (kind == 2) {
                    stt.erase(k);
                } else if (kind == 1 || stt.count(k) == 0U) {
                    stt[k] = burst.back().id;
                }
            };
            switch (bkind) {
                case 0: // inserts next to the key (split the neighbour / the parent chain)
                    for (auto& k : near_keys(false, m, 1)) { add(0, k); }
                    break;
                case 1: // removes of the neighbouring keys (sibling leaves empty: collapses next to A's)
                    for (auto& k : near_keys(true, m, 1)) { add(2, k); }
                    break;
                case 2: // far inserts at the right end (root / upper interior splits) plus one neighbour remove
                    for (std::size_t i = 0; i < m; ++i) {
                        char b[16];
                        snprintf(b, sizeof b, "%05zu", uni.size() + cs % 7 + i);
                        add(0, pfx + (ukind == 0 ? "k" : "") + b);
                    }
                    for (auto& k : near_keys(true, 1, 1)) { add(2, k); }
                    break;
                case 3: // the same key
                    if (stt.count(okey) != 0U) {
                        add(2, okey);
                        add(0, okey);
                    } else {
                        add(0, okey);
                        add(2, okey);
                    }
                    break;
                default: // mix
                    for (auto& k : near_keys(true, m / 2 + 1, 1)) { add(2, k); }
                    for (auto& k : near_keys(false, m / 2 + 1, 0)) { add(0, k); }
                    break;
            }
        }
        if (burst.empty()) {
            yk::delete_storage(storage);
            oses.leave();
            wses.leave();
            continue;
        }
        status ogot = status::OK;
        auto run_outer = [&]() {
            park.count = 0;
            park.parked = false;
            std::string v = make_value(oid, okey, VLEN);
            park.armed = true;
            ogot = okind == 2 ? yk::remove(oses.tok, storage, okey) : yput(oses.tok, storage, okey, v, okind == 0, 8);
            park.armed = false;
        };
        park.park_at = 0;
        run_outer();
        g_progress.fetch_add(1, std::memory_order_relaxed);
        uint64_t K = park.count;
        yk::delete_storage(storage);
        if (K == 0) {
            oses.leave();
            wses.leave();
            continue;
        }
        std::vector<uint64_t> points;
        if (K <= max_points) {
            for (uint64_t k = 1; k <= K; ++k) { points.push_back(k); }
        } else {
            for (uint64_t k = K - 15; k <= K; ++k) { points.push_back(k); } // the tail holds the unlock / publish sequence
            for (uint64_t k = 1; k <= 4; ++k) { points.push_back(k); }
            while (points.size() < max_points) { points.push_back(r.range(5, K - 16)); }
            std::sort(points.begin(), points.end());
            points.erase(std::unique(points.begin(), points.end()), points.end());
        }
        rep.count("cases");
        rep.maxc("max_hook_events_in_one_writer_call", K);
        for (uint64_t kstar : points) {
            if (rep.violations() >= 12) { break; }
            build();
            yk::tree_instance* ti = nullptr;
            yk::find_storage(storage, &ti);
            for (auto& op : burst) { op.got = status::OK; }
            park.gen += 1;
            park.park_at = kstar;
            park.pause_us = static_cast<uint32_t>(r.range(50, 400));
            run_outer();
            bool was_parked = park.parked;
            bool inside = was_parked && done.load(std::memory_order_acquire) == park.gen;
            if (was_parked) {
                for (uint64_t w = 0; done.load(std::memory_order_acquire) != park.gen; ++w) {
                    if (w > 2000) { std::this_thread::sleep_for(std::chrono::microseconds(20)); }
                }
            }
            ++executions;
            if (inside) { ++finished_inside; }
            g_progress.fetch_add(1, std::memory_order_relaxed);
            rep.eval();
            auto describe = [&]() {
                JObj d;
                static const char* kn[] = {"unique-put", "put", "remove"};
                d.num("case", cs).num("universe", static_cast<uint64_t>(ukind)).str("a_op", kn[okind]).str("key", okey).boolean("key_present_before", state0.count(okey) != 0U).str("a_status", st(ogot));
                d.num("parked_at_event", kstar).num("events_undisturbed", K).num("burst_kind", static_cast<uint64_t>(bkind)).num("burst_ops", burst.size()).boolean("burst_ran", was_parked).boolean("burst_finished_inside_the_pause", inside);
                d.num("keys_before", state0.size()).num("thinned", thin.size());
                return d;
            };
            std::map<std::string, uint64_t> final_content;
            std::string content_problem;
            {
                std::vector<ScanTuple> tl;
                yk::scan<char>(storage, "", scan_endpoint::INF, "", scan_endpoint::INF, tl, nullptr, 0, false);
                for (auto& t : tl) {
                    uint64_t vid = 0;
                    ValCheck vc = check_value(std::get<1>(t), std::get<2>(t), std::get<0>(t), vid);
                    if (vc != ValCheck::OK && content_problem.empty()) { content_problem = std::string("value ") + valcheck_name(vc) + " for key " + std::get<0>(t); }
                    if (!final_content.emplace(std::get<0>(t), vid).second && content_problem.empty()) { content_problem = "key " + std::get<0>(t) + " listed twice"; }
                }
            }
            if (!content_problem.empty()) { rep.violation("park:final-content-invalid", content_problem, describe().done()); }
            int took_effect_at = -1;
            if (content_problem.empty()) {
                std::size_t positions = was_parked ? burst.size() + 1 : 1;
                for (std::size_t j = 0; j < positions && took_effect_at < 0; ++j) {
                    std::map<std::string, uint64_t> m = state0;
                    bool ok = true;
                    auto apply = [&](int kind, const std::string& k, uint64_t id, status got) {
                        bool present = m.count(k) != 0U;
                        status want;
                        if (kind == 2) {
                            want = present ? status::OK : status::OK_NOT_FOUND;
                            m.erase(k);
                        } else if (kind == 0) {
                            want = present ? status::WARN_UNIQUE_RESTRICTION : status::OK;
                            if (!present) { m[k] = id; }
                        } else {
                            want = status::OK;
                            m[k] = id;
                        }
                        if (want != got) { ok = false; }
                    };
                    for (std::size_t i = 0; i <= (was_parked ? burst.size() : 0); ++i) {
                        if (i == j) { apply(okind, okey, oid, ogot); }
                        if (was_parked && i < burst.size()) { apply(burst[i].kind, burst[i].key, burst[i].id, burst[i].got); }
                    }
                    if (ok && m == final_content) { took_effect_at = static_cast<int>(j); }
                }
                if (took_effect_at < 0) {
                    std::vector<std::string> bs;
                    for (auto& op : burst) { bs.push_back(JObj().num("kind", static_cast<uint64_t>(op.kind)).str("key", op.key).str("status", st(op.got)).done()); }
                    rep.violation("park:not-linearizable", "statuses and final content match no sequential execution in which the parked operation takes effect at some position of the other thread's burst",
                                  describe().num("keys_in_final_content", final_content.size()).raw("burst", jarr(bs)).done());
                }
            }
            {
                Walker w(alloc::mode() == alloc::Mode::FULL);
                WalkResult wr = w.walk(ti);
                for (auto& [ek, ed] : wr.errors) { rep.violation("walker:" + ek, "structure after a writer was parked at one of its steps while another writer ran next to it", ed); }
                if (wr.entries.size() != final_content.size()) { rep.violation("park:walker-and-scan-disagree", "number of entries reachable by the walker differs from the full scan", describe().num("walker", wr.entries.size()).num("scan", final_content.size()).done()); }
                std::size_t unreachable = 0;
                std::string first;
                for (auto& [k, id] : final_content) {
                    (void) id;
                    std::pair<char*, std::size_t> g;
                    if (yget(storage, k, g) != status::OK) {
                        if (unreachable++ == 0) { first = k; }
                    }
                }
                if (unreachable != 0) { rep.violation("park:key-not-found-by-descent", "a key the full scan returns is not found by get", describe().num("keys", unreachable).str("first", first).done()); }
            }
            if (was_parked) {
                uint64_t q = (kstar * 8) / (K + 1);
                rep.distinct(mix64(static_cast<uint64_t>(okind), mix64(static_cast<uint64_t>(bkind), mix64(q, (inside ? 1 : 0) + 2 * static_cast<uint64_t>(took_effect_at + 1 > 3 ? 3 : took_effect_at + 1)))));
            }
            if (rep.get("samples_taken") < 2 && was_parked && !inside) {
                rep.count("samples_taken");
                rep.sample(describe().done());
            }
            yk::delete_storage(storage);
            if (executions % 16 == 0) {
                oses.reenter();
                wses.reenter();
            }
        }
        oses.leave();
        wses.leave();
    }
    quit.store(true);
    bthread.join();
    t_park = nullptr;
    ctl::install();
    rep.count("executions", executions);
    rep.count("executions_where_the_burst_finished_inside_the_pause", finished_inside);
    rep.count("executions_where_the_burst_was_still_running_when_the_writer_resumed", executions - finished_inside);
    yk::fin();
    drain_alloc_problems(rep);
    if (executions < 50) { rep.inconclusive("fewer than 50 parked executions"); }
    return rep.finish();
}
