// C08 / C09 / C07: micro-races on the smallest trees that still have an
// interior node: the last keys of the last two border children of a (layer)
// root are removed at the same moment, so that "mark myself deleted, unlink
// from the leaf chain, wait for the parent" of one thread interleaves with the
// other thread's collapse of the interior node and the hand-over of the root.
// The storage is reused for many rounds: whatever the race leaves behind
// (an empty deleted root that is revived by the next put, leaf-chain pointers,
// version bits) is what the next rounds build on.
#include "conc_common.h"

using namespace vf;

int run_collapse_micro(const Args& a) {
    uint64_t seed = a.num("seed", 1);
    uint64_t rounds = a.num("rounds", 20000);
    uint64_t walk_every = a.num("walk_every", 1);
    Report rep(a.str("prop", "C09"), "conc_collapse_micro", seed);
    rep.set_rule("one storage reused for thousands of rounds; per round the main thread builds a tree of 16..40 keys (optionally below a 8/16-byte prefix: the interior node is then a layer root) and removes all but 2..4 keys so that "
                 "the root interior node keeps two border children with 1..2 keys each; then 2 removers (one per child, random skew of 0..400 pause cycles) delete the remaining keys while a third thread gets / scans, all released "
                 "by one barrier; afterwards (quiescent) the walker checks the whole structure (leaf chain prev/next, root bit, version bits clean, nothing reachable is retired) and the API must agree with the model "
                 "(everything gone; a probe put/get/remove works). A round that never completes is caught by the stall watchdog. distinct_nontrivial = rounds by (layer depth, keys left per child, build order, which remover finished last, reader saw 0/1/2 keys)");
    yk::init();
    Rng r(seed);
    std::string storage = "cm";
    yk::create_storage(storage);
    yk::tree_instance* ti = nullptr;
    yk::find_storage(storage, &ti);
    std::atomic<uint64_t> next_id{1};
    uint64_t reader_ops = 0;
    Session main_ses;
    for (uint64_t rd = 0; rd < rounds && rep.violations() < 8; ++rd) {
        if (rd % 5000 == 4999 && r.chance(1, 2)) {
            yk::delete_storage(storage);
            yk::create_storage(storage);
            yk::find_storage(storage, &ti);
            rep.count("storages_recreated");
        }
        static const char* prefixes[] = {"", "", "LAYERONE", "LAYERONELAYERTWO"};
        std::string prefix = prefixes[r.below(4)];
        std::size_t n = r.chance(3, 4) ? 16 : r.range(17, 40);
        std::vector<std::string> keys;
        for (std::size_t i = 0; i < n; ++i) {
            char b[16];
            snprintf(b, sizeof b, "K%03zu", i);
            keys.push_back(prefix + b);
        }
        std::vector<std::string> order = keys;
        int build_order = static_cast<int>(r.below(3));
        if (build_order == 1) { std::reverse(order.begin(), order.end()); }
        if (build_order == 2) {
            for (std::size_t i = order.size(); i > 1; --i) { std::swap(order[i - 1], order[r.below(i)]); }
        }
        main_ses.reenter();
        for (auto& k : order) {
            status s = yput(main_ses.tok, storage, k, make_value(next_id.fetch_add(1), k, 24));
            g_progress.fetch_add(1, std::memory_order_relaxed);
            if (s != status::OK) { rep.violation("collapse:put-status", "put failed while building", JObj().str("got", st(s)).num("round", rd).done()); }
        }
        // keep nl keys at the left end and nr at the right end
        std::size_t nl = r.chance(2, 3) ? 1 : 2;
        std::size_t nr = r.chance(2, 3) ? 1 : 2;
        std::vector<std::string> left(keys.begin(), keys.begin() + static_cast<long>(nl));
        std::vector<std::string> right(keys.end() - static_cast<long>(nr), keys.end());
        std::vector<std::string> middle(keys.begin() + static_cast<long>(nl), keys.end() - static_cast<long>(nr));
        if (r.chance(1, 2)) { std::reverse(middle.begin(), middle.end()); }
        if (r.chance(1, 4)) {
            for (std::size_t i = middle.size(); i > 1; --i) { std::swap(middle[i - 1], middle[r.below(i)]); }
        }
        for (auto& k : middle) {
            status s = yk::remove(main_ses.tok, storage, k);
            g_progress.fetch_add(1, std::memory_order_relaxed);
            if (s != status::OK) { rep.violation("collapse:remove-status", "remove of a present key failed while shaping", JObj().str("got", st(s)).str("key", k).num("round", rd).done()); }
        }
        main_ses.leave();
        uint32_t skew[3] = {static_cast<uint32_t>(r.below(r.chance(1, 2) ? 60 : 400)), static_cast<uint32_t>(r.below(r.chance(1, 2) ? 60 : 400)), static_cast<uint32_t>(r.below(200))};
        uint64_t fin_stamp[2] = {0, 0};
        std::string fail[3];
        int reader_seen_max = 0;
        uint64_t rops = 0;
        std::atomic<int> removers_done{0};
        run_round(3, seed * 7919 + rd, [&](int tid) {
            Session s;
            s.reenter();
            for (uint32_t k = skew[tid]; k > 0; --k) { _mm_pause(); }
            if (tid < 2) {
                auto& mine = tid == 0 ? left : right;
                for (auto& k : mine) {
                    status st_ = yk::remove(s.tok, storage, k);
                    g_progress.fetch_add(1, std::memory_order_relaxed);
                    if (st_ != status::OK) { fail[tid] = "remove(" + k + ") = " + st(st_); }
                }
                fin_stamp[tid] = stamp();
                removers_done.fetch_add(1, std::memory_order_release);
            } else {
                // optimistic readers during the collapse
                for (int i = 0; (i < 6 || removers_done.load(std::memory_order_acquire) < 2) && i < 4000; ++i) {
                    const std::string& k = (i % 2 == 0 ? left : right)[0];
                    std::pair<char*, std::size_t> g;
                    status gs = yget(storage, k, g);
                    if (gs == status::OK) {
                        uint64_t vid = 0;
                        if (check_value(g.first, g.second, k, vid) != ValCheck::OK) { fail[2] = "get(" + k + ") returned a foreign / torn value"; }
                    } else if (gs != status::WARN_NOT_EXIST) {
                        fail[2] = "get(" + k + ") = " + st(gs);
                    }
                    if (i % 3 == 2) {
                        std::vector<ScanTuple> tl;
                        status ss = yk::scan<char>(storage, "", scan_endpoint::INF, "", scan_endpoint::INF, tl, nullptr, 0, false);
                        if (ss != status::OK && ss != status::OK_RETRY_FROM_ROOT) {
                            if (ss != status::WARN_NOT_EXIST) { fail[2] = "scan = " + st(ss); }
                        }
                        reader_seen_max = std::max(reader_seen_max, static_cast<int>(tl.size()));
                        for (std::size_t j = 0; j < tl.size(); ++j) {
                            const std::string& sk = std::get<0>(tl[j]);
                            bool known = std::find(left.begin(), left.end(), sk) != left.end() || std::find(right.begin(), right.end(), sk) != right.end();
                            if (!known) { fail[2] = "scan returned key " + sk + " that was removed before the race"; }
                            if (j > 0 && !(std::get<0>(tl[j - 1]) < sk)) { fail[2] = "scan result not strictly ascending"; }
                        }
                    }
                    ++rops;
                    g_progress.fetch_add(1, std::memory_order_relaxed);
                }
            }
            s.leave();
        });
        reader_ops += rops;
        rep.eval();
        for (int t = 0; t < 3; ++t) {
            if (!fail[t].empty()) { rep.violation(t < 2 ? "collapse:remover-failed" : "collapse:reader-failed", fail[t], JObj().num("round", rd).str("prefix", prefix).done()); }
        }
        // ---- quiescent checks
        if (walk_every != 0 && rd % walk_every == 0) {
            Walker w(alloc::mode() == alloc::Mode::FULL);
            WalkResult wr = w.walk(ti);
            for (auto& [ek, ed] : wr.errors) { rep.violation("walker:" + ek, "structure after both last children of an interior root were emptied concurrently", ed); }
            if (!wr.entries.empty()) { rep.violation("collapse:keys-left", "keys reachable after every key was removed", JObj().num("keys", wr.entries.size()).num("round", rd).done()); }
        }
        main_ses.reenter();
        {
            std::vector<ScanTuple> tl;
            status ss = yk::scan<char>(storage, "", scan_endpoint::INF, "", scan_endpoint::INF, tl, nullptr, 0, false);
            if (!tl.empty()) { rep.violation("collapse:scan-not-empty", "scan of the emptied storage returned entries", JObj().num("n", tl.size()).str("status", st(ss)).done()); }
            if (r.chance(1, 4)) {
                std::string pk = prefix + "probe";
                std::string pv = make_value(next_id.fetch_add(1), pk, 24);
                std::pair<char*, std::size_t> g;
                status p1 = yput(main_ses.tok, storage, pk, pv);
                status p2 = yget(storage, pk, g);
                status p3 = yk::remove(main_ses.tok, storage, pk);
                if (p1 != status::OK || p2 != status::OK || p3 != status::OK) {
                    rep.violation("collapse:probe-failed", "put/get/remove on the emptied storage failed", JObj().str("put", st(p1)).str("get", st(p2)).str("remove", st(p3)).done());
                }
            }
        }
        main_ses.leave();
        rep.count("rounds");
        rep.distinct(mix64(prefix.size(), mix64(nl * 4 + nr, mix64(build_order, mix64(fin_stamp[0] < fin_stamp[1] ? 1 : 0, std::min(reader_seen_max, 3))))));
        if (rd == 0) { rep.sample(JObj().str("prefix", prefix).num("keys_built", n).num("left_keys", nl).num("right_keys", nr).num("reader_ops", rops).done()); }
    }
    rep.count("reader_ops_during_races", reader_ops);
    yk::delete_storage(storage);
    yk::fin();
    drain_alloc_problems(rep);
    return rep.finish();
}

// C08: first puts into an empty tree (null root) race for the root pointer;
// every put that returned OK must be reachable afterwards.
int run_root_race(const Args& a) {
    uint64_t seed = a.num("seed", 1);
    uint64_t rounds = a.num("rounds", 3000);
    Report rep(a.str("prop", "C08"), "conc_root_race", seed);
    rep.set_rule("per round an empty tree (fresh tree_instance with a null root; every 4th round the storage directory itself after destroy()) receives its first keys from 2..8 threads released by one barrier (random skew 0..300 pause cycles; "
                 "1..3 keys per thread, short / multi-layer); afterwards (quiescent) every key whose put (or create_storage) returned OK must be found by get and by a full scan, the walker must reach exactly those keys, and after "
                 "destroying the tree the allocation registry must hold no block of it. distinct_nontrivial = rounds in which the allocation counters show a lost root race, by (threads, keys per thread, key class, directory?)");
    yk::init();
    Rng r(seed);
    std::atomic<uint64_t> next_id{1};
    uint64_t lost_races = 0;
    for (uint64_t rd = 0; rd < rounds && rep.violations() < 8; ++rd) {
        int T = static_cast<int>(r.range(2, 8));
        int per = static_cast<int>(r.range(1, 3));
        int kclass = static_cast<int>(r.below(3));
        bool directory = rd % 4 == 3;
        uint32_t skew[8];
        for (auto& s : skew) { s = static_cast<uint32_t>(r.below(r.chance(1, 2) ? 30 : 300)); }
        std::vector<std::vector<std::string>> keys(T);
        for (int t = 0; t < T; ++t) {
            for (int i = 0; i < per; ++i) {
                std::string k = kclass == 0 ? "r" + std::to_string(t) + "_" + std::to_string(i)
                                : kclass == 1 ? "ROOTRACE" + std::to_string(t) + "_" + std::to_string(i)
                                              : "ROOTRACEROOTRACE_with_a_long_tail_" + std::to_string(t) + "_" + std::to_string(i);
                keys[t].push_back(k);
            }
        }
        std::vector<std::vector<status>> out(T);
        alloc::Counters c0 = alloc::counters();
        if (directory) {
            yk::destroy(); // the directory tree has a null root again
            run_round(T, seed * 613 + rd, [&](int tid) {
                for (uint32_t k = skew[tid]; k > 0; --k) { _mm_pause(); }
                for (auto& k : keys[tid]) {
                    out[tid].push_back(yk::create_storage(k));
                    g_progress.fetch_add(1, std::memory_order_relaxed);
                }
            });
            rep.eval();
            std::vector<std::pair<std::string, yk::tree_instance*>> lst;
            yk::list_storages(lst);
            std::set<std::string> listed;
            for (auto& [n, p] : lst) {
                (void) p;
                listed.insert(n);
            }
            std::size_t ok = 0;
            for (int t = 0; t < T; ++t) {
                for (std::size_t i = 0; i < keys[t].size(); ++i) {
                    if (out[t][i] != status::OK) {
                        rep.violation("rootrace:create-status", "create_storage of a fresh name failed", JObj().str("got", st(out[t][i])).done());
                        continue;
                    }
                    ++ok;
                    if (yk::find_storage(keys[t][i]) != status::OK || listed.count(keys[t][i]) == 0U) {
                        rep.violation("rootrace:created-storage-unreachable", "create_storage returned OK but the storage cannot be found afterwards (first entries of an empty directory created concurrently)",
                                      JObj().str("name", keys[t][i]).num("threads", T).num("listed", listed.size()).num("round", rd).done());
                    }
                }
            }
            if (listed.size() != ok) { rep.violation("rootrace:directory-size", "number of listed storages differs from the number of successful creates", JObj().num("listed", listed.size()).num("created", ok).done()); }
            yk::destroy();
        } else {
            auto* ti = new yk::tree_instance();
            run_round(T, seed * 613 + rd, [&](int tid) {
                Session s;
                s.reenter();
                for (uint32_t k = skew[tid]; k > 0; --k) { _mm_pause(); }
                for (auto& k : keys[tid]) {
                    std::string v = make_value(next_id.fetch_add(1), k, 40);
                    out[tid].push_back(yk::put<char>(s.tok, ti, k, v.data(), false, v.size()));
                    g_progress.fetch_add(1, std::memory_order_relaxed);
                }
                s.leave();
            });
            rep.eval();
            Walker w(false);
            WalkResult wr = w.walk(ti);
            for (auto& [ek, ed] : wr.errors) { rep.violation("walker:" + ek, "structure after racing first puts", ed); }
            std::set<std::string> reach;
            for (auto& e : wr.entries) { reach.insert(e.key); }
            std::vector<ScanTuple> tl;
            yk::scan<char>(ti, "", scan_endpoint::INF, "", scan_endpoint::INF, tl, nullptr, 0, false);
            std::set<std::string> scanned;
            for (auto& t : tl) { scanned.insert(std::get<0>(t)); }
            std::size_t ok = 0;
            for (int t = 0; t < T; ++t) {
                for (std::size_t i = 0; i < keys[t].size(); ++i) {
                    if (out[t][i] != status::OK) {
                        rep.violation("rootrace:put-status", "first put into an empty tree failed", JObj().str("got", st(out[t][i])).done());
                        continue;
                    }
                    ++ok;
                    std::pair<char*, std::size_t> g{nullptr, 0};
                    status gs = yk::get<char>(ti, keys[t][i], g);
                    uint64_t vid = 0;
                    bool bad = gs != status::OK || check_value(g.first, g.second, keys[t][i], vid) != ValCheck::OK;
                    if (bad || reach.count(keys[t][i]) == 0U || scanned.count(keys[t][i]) == 0U) {
                        rep.violation("rootrace:acknowledged-key-unreachable", "put returned OK but the key is not reachable afterwards (first keys of an empty tree inserted concurrently)",
                                      JObj().str("key", keys[t][i]).str("get", st(gs)).boolean("walker_reaches", reach.count(keys[t][i]) != 0U).boolean("scan_returns", scanned.count(keys[t][i]) != 0U).num("threads", T).num("round", rd).done());
                    }
                }
            }
            if (reach.size() != ok) { rep.violation("rootrace:reachable-key-count", "number of reachable keys differs from the number of successful puts", JObj().num("reachable", reach.size()).num("acknowledged", ok).done()); }
            yk::base_node* root = ti->load_root_ptr();
            if (root != nullptr) {
                root->destroy();
                delete root; // NOLINT
            }
            delete ti; // NOLINT
        }
        alloc::Counters c1 = alloc::counters();
        bool lost = false;
        if (!directory && kclass == 0 && T * per <= 15) {
            // all keys fit one border: every further border allocated was the speculative root of a loser
            lost = c1.node_allocs - c0.node_allocs > 1;
        } else {
            lost = c1.frees_by_worker - c0.frees_by_worker > 0; // a worker frees memory only when it destroys its speculative root
        }
        if (lost) {
            ++lost_races;
            rep.distinct(mix64(T, mix64(per, mix64(kclass, directory ? 1 : 0))));
        }
        rep.count("rounds");
        if (rd % 64 == 63) {
            // nothing of the destroyed trees may be left (values retired by nobody here: only speculative roots are freed directly)
            Session s;
            s.reenter();
            s.leave();
        }
        if (rd == 0) { rep.sample(JObj().num("threads", T).num("keys_per_thread", per).num("key_class", kclass).boolean("directory", directory).done()); }
    }
    rep.count("rounds_with_a_lost_root_race", lost_races);
    yk::fin();
    alloc::Counters cf = alloc::counters();
    if (cf.live_blocks != 0) { rep.violation("rootrace:blocks-live-after-fin", "library blocks still allocated after every tree was destroyed and fin() returned", JObj().num("live", cf.live_blocks).done()); }
    drain_alloc_problems(rep);
    if (lost_races < 5) { rep.inconclusive("fewer than 5 rounds in which a thread lost the race for the root"); }
    return rep.finish();
}

// C08: "collapse of a two-child interior node" racing "split of its parent".
// The tree is grown by ascending inserts until the root interior R and the
// whole rightmost path below it are full (the next insert at the right end
// splits leaf, interior and R); an interior child X of R (index >= 8, or < 8)
// is then thinned to two leaves, one of them with a single key. Thread A
// removes that key (X collapses, its other leaf takes X's place in R), thread B
// does the insert that splits R. Stalls are injected right after lock releases
// (LOCK_REL), so that whatever a writer still stores after it released a lock
// happens after the other writer's whole operation.
int run_parent_race(const Args& a) {
    uint64_t seed = a.num("seed", 1);
    uint64_t rounds = a.num("rounds", 400);
    Report rep(a.str("prop", "C08"), "conc_parent_race", seed);
    rep.set_rule("per round: ascending inserts (optionally below an 8-byte prefix: then R is a layer root and its parent is a border) until the root interior R has 16 children and the rightmost interior and leaf below it are full; one interior child X of R "
                 "(random index, not the last) is thinned to two leaves of which one keeps a single key; then A removes that key (X collapses, the sibling leaf is promoted into R) while B inserts at the right end (leaf, interior and R split) and C "
                 "reads; sleeps of up to 300 us are injected after every lock release so that the stores a writer performs after releasing a lock are overtaken by the other writer's complete operation. Afterwards (quiescent): walker "
                 "(parent/child pointers, separators, leaf chain), every key reachable by get, then the promoted leaf is split and the check repeated. distinct_nontrivial = rounds by (index class of X, prefix, who took R first, which leaf of X survived)");
    yk::init();
    Rng r(seed);
    std::string storage = "pr";
    std::atomic<uint64_t> next_id{1};
    Session main_ses;
    uint64_t shaped = 0;
    for (uint64_t rd = 0; rd < rounds && rep.violations() < 6; ++rd) {
        yk::create_storage(storage);
        yk::tree_instance* ti = nullptr;
        yk::find_storage(storage, &ti);
        std::string prefix = r.chance(1, 3) ? "PARENT01" : "";
        main_ses.reenter();
        std::vector<std::string> keys;
        auto layer_root = [&]() -> yk::base_node* {
            yk::base_node* root = ti->load_root_ptr();
            if (prefix.empty() || root == nullptr) { return root; }
            // the single link of the top border leads to the layer
            auto* b = dynamic_cast<yk::border_node*>(root);
            if (b == nullptr || b->get_permutation_cnk() == 0) { return nullptr; }
            return b->lv_[b->permutation_.get_index_of_rank(0)].get_next_layer();
        };
        auto full_right_path = [&]() {
            auto* R = dynamic_cast<yk::interior_node*>(layer_root());
            if (R == nullptr || R->get_n_keys() != 15) { return false; }
            auto* Y = dynamic_cast<yk::interior_node*>(R->get_child_at(15));
            if (Y == nullptr || Y->get_n_keys() != 15) { return false; }
            auto* L = dynamic_cast<yk::border_node*>(Y->get_child_at(15));
            return L != nullptr && L->get_permutation_cnk() == 15;
        };
        uint64_t n = 0;
        for (; n < 4000 && !full_right_path(); ++n) {
            char b[16];
            snprintf(b, sizeof b, "%06lu", static_cast<unsigned long>(n * 2));
            keys.push_back(prefix + b);
            yput(main_ses.tok, storage, keys.back(), make_value(next_id.fetch_add(1), keys.back(), 24));
            g_progress.fetch_add(1, std::memory_order_relaxed);
        }
        if (!full_right_path()) {
            rep.count("rounds_shape_not_reached");
            main_ses.leave();
            yk::delete_storage(storage);
            continue;
        }
        auto* R = dynamic_cast<yk::interior_node*>(layer_root());
        std::size_t xi = r.chance(2, 3) ? r.range(8, 14) : r.range(0, 7);
        auto* X = dynamic_cast<yk::interior_node*>(R->get_child_at(xi));
        if (X == nullptr || X->get_n_keys() < 1) {
            main_ses.leave();
            yk::delete_storage(storage);
            continue;
        }
        // keys of X by leaf
        std::vector<std::vector<std::string>> leaf_keys;
        for (std::size_t i = 0; i <= X->get_n_keys(); ++i) {
            auto* L = dynamic_cast<yk::border_node*>(X->get_child_at(i));
            if (L == nullptr) { break; }
            std::vector<std::string> ks;
            for (std::size_t rk = 0; rk < L->get_permutation_cnk(); ++rk) {
                std::size_t idx = L->permutation_.get_index_of_rank(rk);
                uint64_t sl = L->key_slice_[idx];
                std::size_t len = L->key_length_[idx];
                ks.push_back(prefix + std::string(reinterpret_cast<char*>(&sl), std::min<std::size_t>(len, 8))); // NOLINT
            }
            leaf_keys.push_back(ks);
        }
        if (leaf_keys.size() < 2) {
            main_ses.leave();
            yk::delete_storage(storage);
            continue;
        }
        // keep two adjacent leaves: `a` with one key, `b` untouched; which side survives varies
        std::size_t keep = r.below(leaf_keys.size() - 1);
        bool a_left = r.chance(1, 2);
        std::size_t ia = a_left ? keep : keep + 1;
        std::size_t ib = a_left ? keep + 1 : keep;
        std::set<std::string> gone;
        for (std::size_t i = 0; i < leaf_keys.size(); ++i) {
            if (i == ia || i == ib) { continue; }
            for (auto& k : leaf_keys[i]) {
                yk::remove(main_ses.tok, storage, k);
                gone.insert(k);
            }
        }
        std::string last_of_a = leaf_keys[ia][r.below(leaf_keys[ia].size())];
        for (auto& k : leaf_keys[ia]) {
            if (k != last_of_a) {
                yk::remove(main_ses.tok, storage, k);
                gone.insert(k);
            }
        }
        main_ses.leave();
        ++shaped;
        char nb[16];
        snprintf(nb, sizeof nb, "%06lu", static_cast<unsigned long>(n * 2));
        std::string right_key = prefix + nb; // beyond the greatest key: splits the whole right path
        ctl::Profile prof;
        prof.at(ctl::point::LOCK_REL) = ctl::Rule{r.chance(3, 4) ? 65535U : 20000U, 3, static_cast<uint32_t>(r.range(50, 300))};
        ctl::g_profile.store(&prof);
        uint32_t skew[3] = {static_cast<uint32_t>(r.below(400)), static_cast<uint32_t>(r.below(400)), 0};
        status out[2] = {status::OK, status::OK};
        uint64_t fin_stamp[2] = {0, 0};
        std::string reader_fail;
        std::atomic<int> writers_done{0};
        const std::vector<std::string>& bkeys = leaf_keys[ib];
        run_round(3, seed * 104729 + rd, [&](int tid) {
            Session s;
            s.reenter();
            for (uint32_t k = skew[tid]; k > 0; --k) { _mm_pause(); }
            if (tid == 0) {
                out[0] = yk::remove(s.tok, storage, last_of_a);
                fin_stamp[0] = stamp();
                writers_done.fetch_add(1);
            } else if (tid == 1) {
                out[1] = yput(s.tok, storage, right_key, make_value(next_id.fetch_add(1), right_key, 24), true);
                fin_stamp[1] = stamp();
                writers_done.fetch_add(1);
            } else {
                for (int i = 0; (i < 4 || writers_done.load() < 2) && i < 3000; ++i) {
                    const std::string& k = bkeys[static_cast<std::size_t>(i) % bkeys.size()];
                    std::pair<char*, std::size_t> g;
                    status gs = yget(storage, k, g);
                    if (gs != status::OK) { reader_fail = "get(" + k + ") of a key that is never removed = " + st(gs); }
                    g_progress.fetch_add(1, std::memory_order_relaxed);
                }
            }
            s.leave();
        });
        ctl::g_profile.store(nullptr);
        rep.eval();
        if (out[0] != status::OK || out[1] != status::OK) { rep.violation("parentrace:writer-status", "remove / insert failed", JObj().str("remove", st(out[0])).str("put", st(out[1])).done()); }
        if (!reader_fail.empty()) { rep.violation("parentrace:reader-failed", reader_fail, JObj().num("round", rd).done()); }
        auto check = [&](const char* when) {
            Walker w(alloc::mode() == alloc::Mode::FULL);
            WalkResult wr = w.walk(ti);
            for (auto& [ek, ed] : wr.errors) { rep.violation("walker:" + ek, std::string("structure ") + when, ed); }
            main_ses.reenter();
            std::size_t missing = 0;
            std::string first_missing;
            for (auto& k : keys) {
                if (gone.count(k) != 0U || k == last_of_a) { continue; }
                std::pair<char*, std::size_t> g;
                if (yget(storage, k, g) != status::OK) {
                    if (missing++ == 0) { first_missing = k; }
                }
            }
            main_ses.leave();
            if (missing != 0) {
                rep.violation("parentrace:key-not-found-by-descent", std::string("keys whose last completed operation was a put are not found by get ") + when,
                              JObj().num("missing", missing).str("first", first_missing).num("round", rd).num("x_index", xi).str("prefix", prefix).done());
            }
        };
        check("after the collapse raced the parent's split");
        // split the promoted leaf: a stale parent pointer sends the new half to the wrong interior node
        main_ses.reenter();
        {
            const std::string& base = bkeys[bkeys.size() / 2];
            for (int i = 0; i < 12; ++i) {
                std::string k = base + static_cast<char>('a' + i);
                if (k.size() - prefix.size() > 8) { break; }
                yput(main_ses.tok, storage, k, make_value(next_id.fetch_add(1), k, 24));
                keys.push_back(k);
            }
        }
        main_ses.leave();
        check("after the promoted leaf was split");
        rep.count("rounds");
        rep.distinct(mix64(xi >= 8 ? 1 : 0, mix64(prefix.size(), mix64(fin_stamp[0] < fin_stamp[1] ? 1 : 0, a_left ? 1 : 0))));
        if (rd == 0) { rep.sample(JObj().num("keys_built", n).num("x_index", xi).num("leaves_of_x", leaf_keys.size()).str("prefix", prefix).done()); }
        yk::delete_storage(storage);
    }
    rep.count("rounds_with_the_shape", shaped);
    yk::fin();
    drain_alloc_problems(rep);
    if (shaped < 10) { rep.inconclusive("fewer than 10 rounds reached the required shape"); }
    return rep.finish();
}

// C08: "unlink of an emptied leaf" racing "split of its left neighbour".
// Three adjacent leaves P (full), M (one key), X. Thread A removes M's key (M
// unlinks itself: locks P, redirects P.next and X.prev), thread B inserts into
// P (P splits; the new right half must become M's / X's predecessor). Sleeps
// after every lock release.
int run_unlink_race(const Args& a) {
    uint64_t seed = a.num("seed", 1);
    uint64_t rounds = a.num("rounds", 1000);
    Report rep(a.str("prop", "C08"), "conc_unlink_race", seed);
    rep.set_rule("per round: a layer (optionally below an 8-byte prefix) of 4..6 leaves built by ascending inserts; one leaf P is filled to 15 entries through gap keys, its right neighbour M is thinned to 1..2 keys; A removes M's keys (M unlinks "
                 "itself from the leaf chain through P), B inserts a gap key into P (split), C scans forward and iterates backward; sleeps of up to 300 us after every lock release. Afterwards (quiescent): walker (leaf chain prev/next in "
                 "both directions, parent pointers, separators), full forward scan and backward cursor equal to the model; then the right neighbour X is emptied as well (it unlinks through whatever prev pointer it has) and the checks are "
                 "repeated. distinct_nontrivial = rounds by (which leaf is P, prefix, keys left in M, who finished first)");
    yk::init();
    Rng r(seed);
    std::string storage = "ur";
    std::atomic<uint64_t> next_id{1};
    Session main_ses;
    uint64_t shaped = 0;
    for (uint64_t rd = 0; rd < rounds && rep.violations() < 6; ++rd) {
        yk::create_storage(storage);
        yk::tree_instance* ti = nullptr;
        yk::find_storage(storage, &ti);
        std::string prefix = r.chance(1, 3) ? "UNLINK01" : "";
        Model model;
        main_ses.reenter();
        auto put = [&](const std::string& k) {
            std::string v = make_value(next_id.fetch_add(1), k, 24);
            yput(main_ses.tok, storage, k, v);
            model[k] = v;
            g_progress.fetch_add(1, std::memory_order_relaxed);
        };
        std::size_t nkeys = r.range(33, 50);
        auto key_of = [&](std::size_t i, int gap) {
            char b[16];
            snprintf(b, sizeof b, "%04zu%d", i, gap);
            return prefix + b;
        };
        for (std::size_t i = 0; i < nkeys; ++i) { put(key_of(i, 0)); }
        // leaves of the layer, left to right
        auto leaves = [&]() {
            std::vector<yk::border_node*> out;
            yk::base_node* n = ti->load_root_ptr();
            if (!prefix.empty() && n != nullptr) {
                auto* top = dynamic_cast<yk::border_node*>(n);
                n = top != nullptr && top->get_permutation_cnk() != 0 ? top->lv_[top->permutation_.get_index_of_rank(0)].get_next_layer() : nullptr;
            }
            while (n != nullptr && !n->get_version_border()) { n = dynamic_cast<yk::interior_node*>(n)->get_child_at(0); }
            for (auto* b = dynamic_cast<yk::border_node*>(n); b != nullptr; b = b->get_next()) { out.push_back(b); }
            return out;
        };
        auto keys_of = [&](yk::border_node* L) {
            std::vector<std::string> ks;
            for (std::size_t rk = 0; rk < L->get_permutation_cnk(); ++rk) {
                std::size_t idx = L->permutation_.get_index_of_rank(rk);
                uint64_t sl = L->key_slice_[idx];
                ks.push_back(prefix + std::string(reinterpret_cast<char*>(&sl), std::min<std::size_t>(L->key_length_[idx], 8))); // NOLINT
            }
            return ks;
        };
        std::vector<yk::border_node*> lv = leaves();
        if (lv.size() < 4) {
            main_ses.leave();
            yk::delete_storage(storage);
            continue;
        }
        std::size_t pi = r.below(lv.size() - 2); // P = lv[pi], M = lv[pi+1], X = lv[pi+2]
        std::vector<std::string> pk = keys_of(lv[pi]), mk = keys_of(lv[pi + 1]), xk = keys_of(lv[pi + 2]);
        // fill P to 15 with gap keys (they sort right after an existing key of P)
        std::vector<std::string> gaps;
        for (auto& k : pk) {
            for (int g = 1; g <= 3; ++g) { gaps.push_back(k.substr(0, k.size() - 1) + static_cast<char>('0' + g)); }
        }
        std::size_t gi = 0;
        while (lv[pi]->get_permutation_cnk() < 15 && gi < gaps.size()) { put(gaps[gi++]); }
        if (lv[pi]->get_permutation_cnk() != 15 || gi >= gaps.size()) {
            main_ses.leave();
            yk::delete_storage(storage);
            continue;
        }
        std::string split_key = gaps[gi];
        std::size_t keep = r.chance(2, 3) ? 1 : 2;
        while (mk.size() > keep) {
            std::size_t i = r.below(mk.size());
            yk::remove(main_ses.tok, storage, mk[i]);
            model.erase(mk[i]);
            mk.erase(mk.begin() + static_cast<long>(i));
        }
        main_ses.leave();
        ++shaped;
        ctl::Profile prof;
        prof.at(ctl::point::LOCK_REL) = ctl::Rule{r.chance(3, 4) ? 65535U : 20000U, 3, static_cast<uint32_t>(r.range(50, 300))};
        ctl::g_profile.store(&prof);
        uint32_t skew[3] = {static_cast<uint32_t>(r.below(400)), static_cast<uint32_t>(r.below(400)), 0};
        status out[3] = {status::OK, status::OK, status::OK};
        uint64_t fin_stamp[2] = {0, 0};
        std::string reader_fail;
        std::atomic<int> writers_done{0};
        std::string split_val = make_value(next_id.fetch_add(1), split_key, 24);
        run_round(3, seed * 15485863 + rd, [&](int tid) {
            Session s;
            s.reenter();
            for (uint32_t k = skew[tid]; k > 0; --k) { _mm_pause(); }
            if (tid == 0) {
                for (auto& k : mk) {
                    status st_ = yk::remove(s.tok, storage, k);
                    if (st_ != status::OK) { out[0] = st_; }
                }
                fin_stamp[0] = stamp();
                writers_done.fetch_add(1);
            } else if (tid == 1) {
                out[1] = yput(s.tok, storage, split_key, split_val, true);
                fin_stamp[1] = stamp();
                writers_done.fetch_add(1);
            } else {
                for (int i = 0; (i < 3 || writers_done.load() < 2) && i < 2000; ++i) {
                    std::vector<ScanTuple> tl;
                    status ss = yk::scan<char>(storage, "", scan_endpoint::INF, "", scan_endpoint::INF, tl, nullptr, 0, false);
                    if (ss != status::OK) { reader_fail = "scan = " + st(ss); }
                    for (std::size_t j = 1; j < tl.size(); ++j) {
                        if (!(std::get<0>(tl[j - 1]) < std::get<0>(tl[j]))) { reader_fail = "scan not strictly ascending"; }
                    }
                    for (auto& k : xk) {
                        bool found = false;
                        for (auto& t : tl) {
                            if (std::get<0>(t) == k) { found = true; }
                        }
                        if (!found) { reader_fail = "scan missed the never-touched key " + k; }
                    }
                    g_progress.fetch_add(1, std::memory_order_relaxed);
                }
            }
            s.leave();
        });
        ctl::g_profile.store(nullptr);
        rep.eval();
        for (auto& k : mk) { model.erase(k); }
        model[split_key] = split_val;
        if (out[0] != status::OK || out[1] != status::OK) { rep.violation("unlinkrace:writer-status", "remove / insert failed", JObj().str("remove", st(out[0])).str("put", st(out[1])).done()); }
        if (!reader_fail.empty()) { rep.violation("unlinkrace:reader-failed", reader_fail, JObj().num("round", rd).done()); }
        coherence_check(rep, storage, model, alloc::mode() == alloc::Mode::FULL, nullptr);
        // X unlinks through its prev pointer
        main_ses.reenter();
        for (auto& k : xk) {
            if (yk::remove(main_ses.tok, storage, k) == status::OK) { model.erase(k); }
            g_progress.fetch_add(1, std::memory_order_relaxed);
        }
        main_ses.leave();
        coherence_check(rep, storage, model, alloc::mode() == alloc::Mode::FULL, nullptr);
        rep.count("rounds");
        rep.distinct(mix64(pi, mix64(prefix.size(), mix64(keep, fin_stamp[0] < fin_stamp[1] ? 1 : 0))));
        if (rd == 0) { rep.sample(JObj().num("leaves", lv.size()).num("p_index", pi).num("keys_left_in_m", keep).str("prefix", prefix).done()); }
        yk::delete_storage(storage);
    }
    rep.count("rounds_with_the_shape", shaped);
    yk::fin();
    drain_alloc_problems(rep);
    if (shaped < 10) { rep.inconclusive("fewer than 10 rounds reached the required shape"); }
    return rep.finish();
}
