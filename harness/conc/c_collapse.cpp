// C08 / C09 / C07: micro-races on the smallest trees that still have an
// interior node: the last keys of the last two border children of a (layer)
// root are removed at the same moment, so that "mark myself deleted, unlink
// from the leaf chain, wait for the parent" of one thread interleaves with the
// other thread's collapse of the interior node and the hand-over of the root.
// The storage is reused for many rounds: whatever the race leaves behind
// (an empty deleted root that is revived by the next put, leaf-chain pointers,
// version bits) is what the next rounds build on.
#include "conc_common.h"

using namespace vf;

int run_collapse_micro(const Args& a) {
    uint64_t seed = a.num("seed", 1);
    uint64_t rounds = a.num("rounds", 20000);
    uint64_t walk_every = a.num("walk_every", 1);
    Report rep(a.str("prop", "C09"), "conc_collapse_micro", seed);
    rep.set_rule("one storage reused for thousands of rounds; per round the main thread builds a tree of 16..40 keys (optionally below a 8/16-byte prefix: the interior node is then a layer root) and removes all but 2..4 keys so that "
                 "the root interior node keeps two border children with 1..2 keys each; then 2 removers (one per child, random skew of 0..400 pause cycles) delete the remaining keys while a third thread gets / scans, all released "
                 "by one barrier; afterwards (quiescent) the walker checks the whole structure (leaf chain prev/next, root bit, version bits clean, nothing reachable is retired) and the API must agree with the model "
                 "(everything gone; a probe put/get/remove works). A round that never completes is caught by the stall watchdog. distinct_nontrivial = rounds by (layer depth, keys left per child, build order, which remover finished last, reader saw 0/1/2 keys)");
    yk::init();
    Rng r(seed);
    std::string storage = "cm";
    yk::create_storage(storage);
    yk::tree_instance* ti = nullptr;
    yk::find_storage(storage, &ti);
    std::atomic<uint64_t> next_id{1};
    uint64_t reader_ops = 0;
    Session main_ses;
    for (uint64_t rd = 0; rd < rounds && rep.violations() < 8; ++rd) {
        if (rd % 5000 == 4999 && r.chance(1, 2)) {
            yk::delete_storage(storage);
            yk::create_storage(storage);
            yk::find_storage(storage, &ti);
            rep.count("storages_recreated");
        }
        static const char* prefixes[] = {"", "", "LAYERONE", "LAYERONELAYERTWO"};
        std::string prefix = prefixes[r.below(4)];
        std::size_t n = r.chance(3, 4) ? 16 : r.range(17, 40);
        std::vector<std::string> keys;
        for (std::size_t i = 0; i < n; ++i) {
            char b[16];
            snprintf(b, sizeof b, "K%03zu", i);
            keys.push_back(prefix + b);
        }
        std::vector<std::string> order = keys;
        int build_order = static_cast<int>(r.below(3));
        if (build_order == 1) { std::reverse(order.begin(), order.end()); }
        if (build_order == 2) {
            for (std::size_t i = order.size(); i > 1; --i) { std::swap(order[i - 1], order[r.below(i)]); }
        }
        main_ses.reenter();
        for (auto& k : order) {
            status s = yput(main_ses.tok, storage, k, make_value(next_id.fetch_add(1), k, 24));
            g_progress.fetch_add(1, std::memory_order_relaxed);
            if (s != status::OK) { rep.violation("collapse:put-status", "put failed while building", JObj().str("got", st(s)).num("round", rd).done()); }
        }
        // keep nl keys at the left end and nr at the right end
        std::size_t nl = r.chance(2, 3) ? 1 : 2;
        std::size_t nr = r.chance(2, 3) ? 1 : 2;
        std::vector<std::string> left(keys.begin(), keys.begin() + static_cast<long>(nl));
        std::vector<std::string> right(keys.end() - static_cast<long>(nr), keys.end());
        std::vector<std::string> middle(keys.begin() + static_cast<long>(nl), keys.end() - static_cast<long>(nr));
        if (r.chance(1, 2)) { std::reverse(middle.begin(), middle.end()); }
        if (r.chance(1, 4)) {
            for (std::size_t i = middle.size(); i > 1; --i) { std::swap(middle[i - 1], middle[r.below(i)]); }
        }
        for (auto& k : middle) {
            status s = yk::remove(main_ses.tok, storage, k);
            g_progress.fetch_add(1, std::memory_order_relaxed);
            if (s != status::OK) { rep.violation("collapse:remove-status", "remove of a present key failed while shaping", JObj().str("got", st(s)).str("key", k).num("round", rd).done()); }
        }
        main_ses.leave();
        uint32_t skew[3] = {static_cast<uint32_t>(r.below(r.chance(1, 2) ? 60 : 400)), static_cast<uint32_t>(r.below(r.chance(1, 2) ? 60 : 400)), static_cast<uint32_t>(r.below(200))};
        uint64_t fin_stamp[2] = {0, 0};
        std::string fail[3];
        int reader_seen_max = 0;
        uint64_t rops = 0;
        std::atomic<int> removers_done{0};
        run_round(3, seed * 7919 + rd, [&](int tid) {
            Session s;
            s.reenter();
            for (uint32_t k = skew[tid]; k > 0; --k) { _mm_pause(); }
            if (tid < 2) {
                auto& mine = tid == 0 ? left : right;
                for (auto& k : mine) {
                    status st_ = yk::remove(s.tok, storage, k);
                    g_progress.fetch_add(1, std::memory_order_relaxed);
                    if (st_ != status::OK) { fail[tid] = "remove(" + k + ") = " + st(st_); }
                }
                fin_stamp[tid] = stamp();
                removers_done.fetch_add(1, std::memory_order_release);
            } else {
                // optimistic readers during the collapse
                for (int i = 0; (i < 6 || removers_done.load(std::memory_order_acquire) < 2) && i < 4000; ++i) {
                    const std::string& k = (i % 2 == 0 ? left : right)[0];
                    std::pair<char*, std::size_t> g;
                    status gs = yget(storage, k, g);
                    if (gs == status::OK) {
                        uint64_t vid = 0;
                        if (check_value(g.first, g.second, k, vid) != ValCheck::OK) { fail[2] = "get(" + k + ") returned a foreign / torn value"; }
                    } else if (gs != status::WARN_NOT_EXIST) {
                        fail[2] = "get(" + k + ") = " + st(gs);
                    }
                    if (i % 3 == 2) {
                        std::vector<ScanTuple> tl;
                        status ss = yk::scan<char>(storage, "", scan_endpoint::INF, "", scan_endpoint::INF, tl, nullptr, 0, false);
                        if (ss != status::OK && ss != status::OK_RETRY_FROM_ROOT) {
                            if (ss != status::WARN_NOT_EXIST) { fail[2] = "scan = " + st(ss); }
                        }
                        reader_seen_max = std::max(reader_seen_max, static_cast<int>(tl.size()));
                        for (std::size_t j = 0; j < tl.size(); ++j) {
                            const std::string& sk = std::get<0>(tl[j]);
                            bool known = std::find(left.begin(), left.end(), sk) != left.end() || std::find(right.begin(), right.end(), sk) != right.end();
                            if (!known) { fail[2] = "scan returned key " + sk + " that was removed before the race"; }
                            if (j > 0 && !(std::get<0>(tl[j - 1]) < sk)) { fail[2] = "scan result not strictly ascending"; }
                        }
                    }
                    ++rops;
                    g_progress.fetch_add(1, std::memory_order_relaxed);
                }
            }
            s.leave();
        });
        reader_ops += rops;
        rep.eval();
        for (int t = 0; t < 3; ++t) {
            if (!fail[t].empty()) { rep.violation(t < 2 ? "collapse:remover-failed" : "collapse:reader-failed", fail[t], JObj().num("round", rd).str("prefix", prefix).done()); }
        }
        // ---- quiescent checks
        if (walk_every != 0 && rd % walk_every == 0) {
            Walker w(alloc::mode() == alloc::Mode::FULL);
            WalkResult wr = w.walk(ti);
            for (auto& [ek, ed] : wr.errors) { rep.violation("walker:" + ek, "structure after both last children of an interior root were emptied concurrently", ed); }
            if (!wr.entries.empty()) { rep.violation("collapse:keys-left", "keys reachable after every key was removed", JObj().num("keys", wr.entries.size()).num("round", rd).done()); }
        }
        main_ses.reenter();
        {
            std::vector<ScanTuple> tl;
            status ss = yk::scan<char>(storage, "", scan_endpoint::INF, "", scan_endpoint::INF, tl, nullptr, 0, false);
            if (!tl.empty()) { rep.violation("collapse:scan-not-empty", "scan of the emptied storage returned entries", JObj().num("n", tl.size()).str("status", st(ss)).done()); }
            if (r.chance(1, 4)) {
                std::string pk = prefix + "probe";
                std::string pv = make_value(next_id.fetch_add(1), pk, 24);
                std::pair<char*, std::size_t> g;
                status p1 = yput(main_ses.tok, storage, pk, pv);
                status p2 = yget(storage, pk, g);
                status p3 = yk::remove(main_ses.tok, storage, pk);
                if (p1 != status::OK || p2 != status::OK || p3 != status::OK) {
                    rep.violation("collapse:probe-failed", "put/get/remove on the emptied storage failed", JObj().str("put", st(p1)).str("get", st(p2)).str("remove", st(p3)).done());
                }
            }
        }
        main_ses.leave();
        rep.count("rounds");
        rep.distinct(mix64(prefix.size(), mix64(nl * 4 + nr, mix64(build_order, mix64(fin_stamp[0] < fin_stamp[1] ? 1 : 0, std::min(reader_seen_max, 3))))));
        if (rd == 0) { rep.sample(JObj().str("prefix", prefix).num("keys_built", n).num("left_keys", nl).num("right_keys", nr).num("reader_ops", rops).done()); }
    }
    rep.count("reader_ops_during_races", reader_ops);
    yk::delete_storage(storage);
    yk::fin();
    drain_alloc_problems(rep);
    return rep.finish();
}
