// C04 (scan), C10 concurrent half (cursor), C06 (insert vs node-version set):
// scanners race owned-key writers; results are checked against the exactly known
// per-key write histories (M4 rules a-d).
#include "conc_common.h"

using namespace vf;

namespace {

struct WOp {
    bool is_put;
    uint64_t id;
    uint64_t inv, resp;
};

struct Universe {
    std::string storage;
    std::string name;
    std::vector<std::string> keys; // sorted
    std::vector<uint8_t> stable;   // never written after setup
    std::vector<uint64_t> cur;     // current value id (0 = absent) at the last quiescent point
    std::vector<uint32_t> cur_len;
    std::unordered_map<std::string, uint32_t> index;
    void finish() {
        std::sort(keys.begin(), keys.end());
        keys.erase(std::unique(keys.begin(), keys.end()), keys.end());
        stable.assign(keys.size(), 0);
        cur.assign(keys.size(), 0);
        cur_len.assign(keys.size(), 0);
        for (uint32_t i = 0; i < keys.size(); ++i) { index[keys[i]] = i; }
    }
};

Universe make_flat() {
    Universe u;
    u.storage = "scan-flat";
    u.name = "flat-multi-level";
    for (unsigned i = 0; i < 260; ++i) {
        for (unsigned j = 0; j < 6; ++j) {
            char b[16];
            snprintf(b, sizeof b, "s%04u%u", i, j);
            u.keys.emplace_back(b);
        }
    }
    u.finish();
    return u;
}

Universe make_layers() {
    Universe u;
    u.storage = "scan-layers";
    u.name = "trie-layers";
    for (unsigned g = 0; g < 14; ++g) {
        char p[16];
        snprintf(p, sizeof p, "GROUP%03u", g);
        std::string prefix(p);
        u.keys.push_back(prefix); // the 8-byte key next to the link with the same slice
        for (unsigned j = 0; j < 24; ++j) {
            char b[8];
            snprintf(b, sizeof b, "%02u", j);
            u.keys.push_back(prefix + b);
        }
        // a second layer below
        for (unsigned j = 0; j < 6; ++j) {
            char b[8];
            snprintf(b, sizeof b, "%u", j);
            u.keys.push_back(prefix + "SUBLAYER" + b);
        }
        u.keys.push_back(prefix.substr(0, 6));
    }
    u.finish();
    return u;
}

// wide top layer: 40 next-layer links interleaved with 8-byte keys, so that the layer-0 borders holding the
// links split / unlink (the link's rank changes) while the sub-layers' roots split and collapse
Universe make_wide() {
    Universe u;
    u.storage = "scan-wide";
    u.name = "trie-layers-wide-top";
    for (unsigned g = 0; g < 40; ++g) {
        char p[16];
        snprintf(p, sizeof p, "W%07u", g * 10);
        std::string prefix(p);
        for (unsigned j = 0; j < 20; ++j) {
            char b[8];
            snprintf(b, sizeof b, "%02u", j);
            u.keys.push_back(prefix + b);
        }
        for (unsigned t = 1; t <= 6; ++t) {
            snprintf(p, sizeof p, "W%07u", g * 10 + t);
            u.keys.emplace_back(p);
        }
    }
    u.finish();
    return u;
}

struct ScanRec {
    bool cursor;
    bool r2l;
    bool complete;       // ran to the end of the interval (not limited / not stopped)
    std::size_t max_size;
    uint32_t lo, hi;     // universe index range [lo, hi] of the requested interval (inclusive bounds as keys)
    uint64_t inv, resp;
    std::vector<std::pair<uint32_t, uint64_t>> out; // (key index, value id)
    std::string problem; // harness-level problem detected while reading (order, validation)
    std::string problem_detail;
};

} // namespace

int run_scan(const Args& a) {
    uint64_t seed = a.num("seed", 1);
    uint64_t rounds = a.num("rounds", 500);
    bool use_cursor = a.num("cursor", 0) != 0;
    bool delays = a.num("delays", 1) != 0;
    std::string prop = a.str("prop", use_cursor ? "C10" : "C04");
    Report rep(prop, use_cursor ? "conc_iscan" : "conc_scan", seed);
    rep.set_rule(std::string(use_cursor ? "cursors (iscan, both directions, paused/stopped at random steps)" : "scans (full, sub-interval, size-limited, right-to-left max_size=1)") +
                 " race W in {1,2,4,8} writers with per-key ownership on a multi-level tree (1560-key universe) and on a multi-layer tree (14 sub-layers with a nested layer); a third of the keys is stable; "
                 "writers insert runs of absent keys (splits), remove runs (unlinks, layer-root retirement) and overwrite; every call is stamped; rules: a) strictly monotone, inside the interval, valid value of that key; "
                 "b) the returned value was current at some instant of the scan; c) a key of the covered part that was present throughout (last completed op a put, no remove overlapping the scan) is returned. "
                 "distinct_nontrivial = scans that overlapped >=1 write inside their interval, by (kind, direction, limit class, scenario, #overlapping writes bucket, node-count change)");
    yk::init();
    Rng r(seed);
    std::vector<Universe> us;
    std::string only = a.str("scenario", "all");
    if (only == "all" || only == "flat") { us.push_back(make_flat()); }
    if (only == "all" || only == "layers") { us.push_back(make_layers()); }
    if (only == "all" || only == "layers" || only == "wide") { us.push_back(make_wide()); }
    std::atomic<uint64_t> next_id{1};
    Session main_ses;
    main_ses.reenter();
    for (auto& u : us) {
        yk::create_storage(u.storage);
        for (uint32_t i = 0; i < u.keys.size(); ++i) {
            // stable third, in runs of 8 so that whole borders / whole sub-layers consist of unstable keys only
            // (they can be emptied, unlinked and retired); of the rest about half present initially
            bool stable = ((i / 8) % 3 == 0);
            u.stable[i] = stable ? 1 : 0;
            if (stable || r.chance(1, 2)) {
                uint64_t id = next_id.fetch_add(1);
                uint32_t len = static_cast<uint32_t>(r.range(24, 120));
                yput(main_ses.tok, u.storage, u.keys[i], make_value(id, u.keys[i], len));
                u.cur[i] = id;
                u.cur_len[i] = len;
            }
        }
    }
    main_ses.leave();
    alloc::Counters c_prev = alloc::counters();

    for (uint64_t rd = 0; rd < rounds && rep.violations() < 10; ++rd) {
        Universe& u = us[rd % us.size()];
        static const int wcs[] = {1, 2, 2, 4, 4, 8};
        int W = wcs[r.below(6)];
        if (a.has("writers")) { W = static_cast<int>(a.num("writers", 4)); }
        int S = static_cast<int>(r.range(1, 3));
        // region of contention
        uint32_t n = static_cast<uint32_t>(u.keys.size());
        uint32_t span = static_cast<uint32_t>(r.range(a.num("span_min", 30), a.num("span_max", 240)));
        uint32_t rlo = static_cast<uint32_t>(r.below(n - std::min(span, n - 1)));
        uint32_t rhi = std::min(n - 1, rlo + span);
        // every fourth round works at the right edge of the tree: right-to-left scans start there, and the writers
        // empty / unlink / refill the rightmost border nodes under them
        bool right_edge = rd % 4 == 3;
        if (right_edge) {
            span = static_cast<uint32_t>(r.range(12, 60));
            rhi = n - 1;
            rlo = n - 1 - std::min(span, n - 1);
        }
        std::vector<std::vector<WOp>> hist(n);
        std::vector<std::vector<ScanRec>> srec(S);
        uint64_t round_seed = seed * 7368787 + rd;
        ctl::Profile prof = make_profile(r, delays ? static_cast<int>(r.below(7)) : 0);
        ctl::g_profile.store(delays ? &prof : nullptr);
        std::atomic<int> writers_left{W};
        uint64_t round_start = stamp();

        run_round(W + S, round_seed, [&](int tid) {
            Rng tr(round_seed * 31 + tid);
            Session ses;
            ses.reenter();
            if (tid < W) {
                // ---------------- writer: owns keys with (index % W == tid) among the non-stable ones
                std::vector<uint32_t> mine;
                for (uint32_t i = rlo; i <= rhi; ++i) {
                    if (u.stable[i] == 0 && static_cast<int>(i % W) == tid) { mine.push_back(i); }
                }
                std::vector<uint64_t> kst(mine.size());
                for (std::size_t j = 0; j < mine.size(); ++j) { kst[j] = u.cur[mine[j]]; }
                auto do_put = [&](std::size_t j) {
                    uint32_t ki = mine[j];
                    WOp w{true, next_id.fetch_add(1), 0, 0};
                    uint32_t len = static_cast<uint32_t>(tr.chance(1, 50) ? 20000 : tr.range(24, 160));
                    std::string v = make_value(w.id, u.keys[ki], len);
                    w.inv = stamp();
                    status s = yput(ses.tok, u.storage, u.keys[ki], v);
                    w.resp = stamp();
                    if (s != status::OK) {
                        rep.violation("scan:writer-put-status", "put by the owning writer failed", JObj().str("got", st(s)).done());
                        return;
                    }
                    hist[ki].push_back(w);
                    rep.count(kst[j] == 0 ? "writer_inserts" : "writer_overwrites");
                    kst[j] = w.id;
                    u.cur_len[ki] = len; // only the owner writes this entry
                };
                auto do_remove = [&](std::size_t j) {
                    uint32_t ki = mine[j];
                    WOp w{false, 0, 0, 0};
                    w.inv = stamp();
                    status s = yk::remove(ses.tok, u.storage, u.keys[ki]);
                    w.resp = stamp();
                    bool present = kst[j] != 0;
                    if ((present && s != status::OK) || (!present && s != status::OK_NOT_FOUND && s != status::OK_ROOT_IS_NULL)) {
                        rep.violation("scan:writer-remove-status", "remove by the owning writer returned an unexpected status", JObj().str("got", st(s)).boolean("present", present).str("key", hex(u.keys[ki])).done());
                        return;
                    }
                    if (present) {
                        hist[ki].push_back(w);
                        rep.count("writer_removes");
                    }
                    kst[j] = 0;
                };
                std::size_t waves = tr.range(1, 4);
                for (std::size_t wv = 0; wv < waves && !mine.empty(); ++wv) {
                    std::size_t a0 = tr.below(mine.size());
                    std::size_t b0 = std::min(mine.size(), a0 + tr.range(3, 40));
                    switch (tr.below(4)) {
                        case 0: // insert a run of absent keys (fills borders: splits)
                            for (std::size_t j = a0; j < b0; ++j) {
                                if (kst[j] == 0) { do_put(j); }
                            }
                            break;
                        case 1: // remove a run (empties borders: unlink, layer-root retirement)
                            for (std::size_t j = a0; j < b0; ++j) {
                                if (kst[j] != 0) { do_remove(j); }
                            }
                            break;
                        case 2: // overwrite
                            for (std::size_t j = a0; j < b0; ++j) {
                                if (kst[j] != 0 && tr.chance(1, 2)) { do_put(j); }
                            }
                            break;
                        default: // remove then re-insert at once (layer root replaced, slot reuse)
                            for (std::size_t j = a0; j < b0; ++j) {
                                if (kst[j] != 0) { do_remove(j); }
                                if (tr.chance(2, 3)) { do_put(j); }
                            }
                            break;
                    }
                    if (tr.chance(1, 2)) { ses.reenter(); }
                }
                ses.leave();
                writers_left.fetch_sub(1);
                return;
            }
            // ---------------- scanner
            auto& recs = srec[tid - W];
            int nscan = 0;
            while ((writers_left.load() > 0 || nscan < 2) && nscan < 40) {
                ++nscan;
                ScanRec rec{};
                rec.cursor = use_cursor;
                // interval
                uint32_t lo = 0, hi = n - 1;
                scan_endpoint le = scan_endpoint::INF, re = scan_endpoint::INF;
                unsigned kindsel = static_cast<unsigned>(tr.below(4));
                if (kindsel != 0) {
                    lo = rlo > 20 ? rlo - static_cast<uint32_t>(tr.below(20)) : 0;
                    hi = std::min(n - 1, rhi + static_cast<uint32_t>(tr.below(20)));
                    if (tr.chance(1, 2)) {
                        lo = static_cast<uint32_t>(tr.range(lo, hi));
                        hi = static_cast<uint32_t>(tr.range(lo, hi));
                    }
                    le = re = scan_endpoint::INCLUSIVE;
                }
                rec.lo = lo;
                rec.hi = hi;
                rec.max_size = 0;
                rec.r2l = false;
                rec.complete = true;
                std::string lk = le == scan_endpoint::INF ? "" : u.keys[lo];
                std::string rk = re == scan_endpoint::INF ? "" : u.keys[hi];
                std::vector<std::pair<std::string, uint64_t>> got; // key, id
                auto validate = [&](const std::string& k, const char* p, std::size_t len, bool has_len) {
                    uint64_t id = 0;
                    if (u.index.find(k) == u.index.end()) {
                        // reported key is not a key that was ever stored: do not interpret the value with it
                        got.emplace_back(k, 0);
                        return;
                    }
                    ValCheck vc = has_len ? check_value(p, len, k, id) : check_value_nolen(p, k, id);
                    if (vc != ValCheck::OK && rec.problem.empty()) {
                        rec.problem = std::string("value:") + valcheck_name(vc);
                        rec.problem_detail = JObj().str("key", hex(k)).num("len", len).done();
                    }
                    got.emplace_back(k, id);
                };
                if (!use_cursor) {
                    if (kindsel == 2) { rec.max_size = tr.range(1, 30); }
                    if ((kindsel == 3 && tr.chance(1, 2)) || (right_edge && tr.chance(2, 3))) {
                        rec.r2l = true;
                        rec.max_size = 1;
                        re = scan_endpoint::INF;
                        rec.hi = n - 1;
                        rk = "";
                    }
                    std::vector<ScanTuple> tl;
                    rec.inv = stamp();
                    status s = yk::scan<char>(u.storage, lk, le, rk, re, tl, nullptr, rec.max_size, rec.r2l);
                    rec.resp = stamp();
                    if (s != status::OK) {
                        rec.problem = "status";
                        rec.problem_detail = JObj().str("got", st(s)).done();
                    }
                    for (auto& t : tl) { validate(std::get<0>(t), std::get<1>(t), std::get<2>(t), true); }
                    if (rec.max_size != 0 && tl.size() >= rec.max_size) { rec.complete = false; }
                } else {
                    rec.r2l = tr.chance(1, 2);
                    std::size_t stop_after = tr.chance(1, 3) ? tr.range(1, 30) : 0;
                    yk::iscan_context* ctx = nullptr;
                    void* v = nullptr;
                    rec.inv = stamp();
                    alloc::watch_window(true);
                    status s = yk::iscan_open(u.storage, lk, le, rk, re, rec.r2l, false, ctx, v);
                    alloc::watch_window(false);
                    std::size_t steps = 0;
                    while (s == status::OK) {
                        if (getenv("VERIF_DEBUG_STACK") != nullptr && u.index.find(ctx->full_key()) == u.index.end()) {
                            std::string dbg;
                            for (std::size_t q = 0; q < ctx->stack_size(); ++q) {
                                auto& e = ctx->stack_at(q);
                                dbg += "[" + hex(std::string(reinterpret_cast<const char*>(&e.key.get_key_slice()), 8)) + "/" + std::to_string(e.key.get_key_length()) + " root=" + std::to_string(e.layer_root->get_version_root()) + " rootdel=" + std::to_string(e.layer_root->get_version_deleted()) + " bndel=" + std::to_string(e.bn->get_version_deleted()) + " rank=" + std::to_string(e.bi.perm_rank) + "]";
                            }
                            fprintf(stderr, "DBG steps=%zu r2l=%d stack=%s\n", steps, rec.r2l ? 1 : 0, dbg.c_str());
                        }
                        validate(ctx->full_key(), static_cast<char*>(v), 0, false);
                        ++steps;
                        if (stop_after != 0 && steps >= stop_after) {
                            rec.complete = false;
                            break;
                        }
                        if (tr.chance(1, 10)) { std::this_thread::yield(); } // pause
                        s = yk::iscan_next(ctx, v);
                    }
                    rec.resp = stamp();
                    if (ctx != nullptr) { yk::iscan_close(ctx); }
                    if (s != status::OK && s != status::OK_SCAN_END) {
                        rec.problem = "status";
                        rec.problem_detail = JObj().str("got", st(s)).done();
                    }
                }
                // rule a: monotone, in interval, known keys
                for (std::size_t i = 0; i < got.size(); ++i) {
                    auto it = u.index.find(got[i].first);
                    if (it == u.index.end()) {
                        if (rec.problem.empty()) {
                            rec.problem = "reported-key-was-never-stored";
                            rec.problem_detail = JObj().str("key", hex(got[i].first)).done();
                        }
                        continue;
                    }
                    uint32_t ki = it->second;
                    if (ki < rec.lo || ki > rec.hi) {
                        if (rec.problem.empty()) {
                            rec.problem = "key-outside-interval";
                            rec.problem_detail = JObj().str("key", hex(got[i].first)).done();
                        }
                    }
                    if (!rec.out.empty()) {
                        bool mono = rec.r2l ? ki < rec.out.back().first : ki > rec.out.back().first;
                        if (!mono && rec.problem.empty()) {
                            rec.problem = "not-strictly-monotone";
                            rec.problem_detail = JObj().str("key", hex(got[i].first)).str("prev", hex(u.keys[rec.out.back().first])).done();
                        }
                    }
                    rec.out.emplace_back(ki, got[i].second);
                }
                recs.push_back(std::move(rec));
                if (tr.chance(1, 3)) { ses.reenter(); }
            }
            ses.leave();
        });
        ctl::g_profile.store(nullptr);
        alloc::Counters c_now = alloc::counters();
        bool nodes_changed = c_now.node_allocs != c_prev.node_allocs || c_now.node_frees != c_prev.node_frees;
        rep.count("nodes_allocated", c_now.node_allocs - c_prev.node_allocs);
        rep.count("nodes_released", c_now.node_frees - c_prev.node_frees);
        if (nodes_changed) { rep.count("rounds_with_structure_change"); }
        c_prev = c_now;
        rep.count("rounds");
        // ---------------- check the scans of this round
        auto key_desc = [&](uint32_t ki) { return hex(u.keys[ki]); };
        for (auto& recs : srec) {
            for (auto& rec : recs) {
                rep.eval();
                rep.count(rec.cursor ? (rec.r2l ? "cursors_backward" : "cursors_forward") : (rec.r2l ? "scans_right_to_left" : (rec.max_size != 0 ? "scans_limited" : "scans_unlimited")));
                std::string kind_s = rec.cursor ? (u.name != "flat-multi-level" ? "iscan:trie-layers" : "iscan:single-layer") : "scan";
                const char* kind = kind_s.c_str();
                auto base = [&]() {
                    JObj d;
                    d.str("scenario", u.name).str("api", kind).boolean("right_to_left", rec.r2l).num("max_size", rec.max_size).boolean("complete", rec.complete);
                    d.str("l_key", key_desc(rec.lo)).str("r_key", key_desc(rec.hi)).num("scan_inv", rec.inv).num("scan_resp", rec.resp).num("returned", rec.out.size()).num("writers", W).num("round", rd);
                    return d;
                };
                if (!rec.problem.empty()) {
                    JObj d = base();
                    d.raw("problem", rec.problem_detail);
                    rep.violation(std::string(kind) + ":" + rec.problem, "scan result is not a valid ordered list of in-interval entries with valid values", d.done());
                    continue;
                }
                // covered part
                uint32_t clo = rec.lo, chi = rec.hi;
                if (!rec.complete && !rec.out.empty()) {
                    if (rec.r2l) {
                        clo = rec.out.back().first;
                    } else {
                        chi = rec.out.back().first;
                    }
                }
                if (!rec.complete && rec.out.empty()) { continue; }
                uint64_t overlapping_writes = 0;
                std::size_t oi = 0;
                std::vector<std::pair<uint32_t, uint64_t>> out = rec.out;
                if (rec.r2l) { std::reverse(out.begin(), out.end()); }
                bool failed = false;
                for (uint32_t ki = clo; ki <= chi && !failed; ++ki) {
                    while (oi < out.size() && out[oi].first < ki) { ++oi; }
                    bool returned = oi < out.size() && out[oi].first == ki;
                    const auto& h = hist[ki];
                    for (auto& w : h) {
                        if (w.inv < rec.resp && w.resp > rec.inv) { ++overlapping_writes; }
                    }
                    if (returned) {
                        // rule b: the value was current at some instant of [inv, resp]
                        uint64_t id = out[oi].second;
                        bool ok = false;
                        std::string why;
                        if (id == u.cur[ki]) {
                            // initial value: fine unless replaced/removed before the scan began
                            ok = h.empty() || !(h[0].resp < rec.inv);
                            why = "initial value was already replaced before the scan was invoked";
                        } else {
                            why = "value was never written to this key (neither initial nor by this round's owner)";
                            for (std::size_t x = 0; x < h.size(); ++x) {
                                if (h[x].is_put && h[x].id == id) {
                                    bool started = h[x].inv < rec.resp;
                                    bool superseded = x + 1 < h.size() && h[x + 1].resp < rec.inv;
                                    ok = started && !superseded;
                                    why = !started ? "value was written after the scan returned" : "value was already replaced before the scan was invoked";
                                }
                            }
                        }
                        rep.count("rule_b_checks");
                        if (!ok) {
                            JObj d = base();
                            d.str("key", key_desc(ki)).num("value_id", id).str("why", why);
                            rep.violation(std::string(kind) + ":value-never-current-during-scan", "returned (key,value) was not the binding of the key at any instant of the scan", d.done());
                            failed = true;
                        }
                    } else {
                        // rule c: present throughout => must be returned
                        // state just before the scan: last op completed before inv
                        bool present_before = u.cur[ki] != 0;
                        bool undetermined = false;
                        bool remove_touches = false;
                        for (auto& w : h) {
                            if (w.resp < rec.inv) {
                                present_before = w.is_put;
                            } else if (w.inv < rec.resp) {
                                // overlaps the scan
                                if (!w.is_put) { remove_touches = true; }
                                if (w.is_put && !present_before) { undetermined = true; } // insert racing the scan: may be missed
                            }
                        }
                        rep.count("rule_c_checks");
                        if (present_before && !remove_touches && !undetermined) {
                            JObj d = base();
                            d.str("key", key_desc(ki)).boolean("stable_key", u.stable[ki] != 0).num("writes_on_key_this_round", h.size());
                            rep.violation(std::string(kind) + (u.stable[ki] != 0 ? ":stable-key-missing" : ":present-key-missing"),
                                          "a key of the covered interval that was present for the whole duration of the scan was not returned", d.done());
                            failed = true;
                        }
                        if (u.stable[ki] != 0) { rep.count("stable_keys_demanded"); }
                    }
                }
                if (overlapping_writes != 0) {
                    rep.count("scans_overlapping_writes");
                    rep.distinct(mix64(rec.cursor ? 1 : 0, mix64(rec.r2l ? 1 : 0, mix64(rec.max_size == 0 ? 0 : (rec.max_size == 1 ? 1 : 2), mix64(rd % us.size(), mix64(std::min<uint64_t>(overlapping_writes, 40) / 4, nodes_changed ? 1 : 0))))));
                    if (nodes_changed) { rep.count("scans_in_rounds_with_structure_change"); }
                    if (rep.get("samples_taken") < 4) {
                        rep.count("samples_taken");
                        rep.sample(base().num("writes_overlapping_in_interval", overlapping_writes).done());
                    }
                }
            }
        }
        // ---------------- new quiescent state + coherence
        for (uint32_t ki = 0; ki < n; ++ki) {
            if (!hist[ki].empty()) { u.cur[ki] = hist[ki].back().is_put ? hist[ki].back().id : 0; }
        }
        (void) round_start;
        Model model;
        for (uint32_t ki = 0; ki < n; ++ki) {
            if (u.cur[ki] != 0) { model[u.keys[ki]] = make_value(u.cur[ki], u.keys[ki], u.cur_len[ki]); }
        }
        coherence_check(rep, u.storage, model, true, nullptr);
        drain_alloc_problems(rep);
    }
    rep.note("hook_counts", ctl::counts_json());
    rep.note("delays_injected", ctl::delays_json());
    for (auto& u : us) { yk::delete_storage(u.storage); }
    yk::fin();
    drain_alloc_problems(rep);
    if (alloc::counters().watched_live != 0) { rep.violation("iscan:cursor-context-leak", "cursor contexts still allocated", "{}"); }
    if (rep.get("scans_overlapping_writes") == 0) { rep.inconclusive("no scan overlapped a write in its interval"); }
    return rep.finish();
}
