// Dispatcher of the multi-thread harnesses.
#include <glog/logging.h>

#include "ykw.h"

int run_lin(const vf::Args&);
int run_lin_micro(const vf::Args&);
int run_scan(const vf::Args&);
int run_phantom(const vf::Args&);
int run_phantom_micro(const vf::Args&);
int run_gc(const vf::Args&);
int run_struct(const vf::Args&);
int run_ddl(const vf::Args&);
int run_value(const vf::Args&);
int run_leak(const vf::Args&);
int run_cycle(const vf::Args&);

int main(int argc, char** argv) {
    google::InitGoogleLogging(argv[0]);
    FLAGS_logtostderr = true;
    vf::Args args(argc, argv);
    vf::setup_alloc(vf::alloc::Mode::FULL);
    vf::ctl::install();
    std::string mode = args.str("mode");
    if (mode == "lin") { return run_lin(args); }
    if (mode == "lin_micro") { return run_lin_micro(args); }
    if (mode == "scan") { return run_scan(args); }
    if (mode == "phantom") { return run_phantom(args); }
    if (mode == "phantom_micro") { return run_phantom_micro(args); }
    if (mode == "gc") { return run_gc(args); }
    if (mode == "struct") { return run_struct(args); }
    if (mode == "ddl") { return run_ddl(args); }
    if (mode == "value") { return run_value(args); }
    if (mode == "leak") { return run_leak(args); }
    if (mode == "cycle") { return run_cycle(args); }
    fprintf(stderr, "unknown --mode %s\n", mode.c_str());
    return 2;
}
