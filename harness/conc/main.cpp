// Dispatcher of the multi-thread harnesses.
#include <glog/logging.h>

#include "ykw.h"

int run_lin(const vf::Args&);
int run_scan(const vf::Args&);
int run_phantom(const vf::Args&);

int main(int argc, char** argv) {
    google::InitGoogleLogging(argv[0]);
    FLAGS_logtostderr = true;
    vf::Args args(argc, argv);
    vf::setup_alloc(vf::alloc::Mode::FULL);
    vf::ctl::install();
    std::string mode = args.str("mode");
    if (mode == "lin") { return run_lin(args); }
    if (mode == "scan") { return run_scan(args); }
    if (mode == "phantom") { return run_phantom(args); }
    fprintf(stderr, "unknown --mode %s\n", mode.c_str());
    return 2;
}
