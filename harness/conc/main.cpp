// Dispatcher of the multi-thread harnesses.
#include <glog/logging.h>

#include <thread>
#include <unistd.h>

#include "conc_common.h"
#include "ykw.h"

int run_lin(const vf::Args&);
int run_lin_micro(const vf::Args&);
int run_scan(const vf::Args&);
int run_phantom(const vf::Args&);
int run_phantom_micro(const vf::Args&);
int run_gc(const vf::Args&);
int run_struct(const vf::Args&);
int run_ddl(const vf::Args&);
int run_value(const vf::Args&);
int run_leak(const vf::Args&);
int run_cycle(const vf::Args&);
int run_nodeinfo_conc(const vf::Args&);
int run_collapse_micro(const vf::Args&);
int run_perm_readers(const vf::Args&);
int run_root_race(const vf::Args&);
int run_preempt(const vf::Args&);
int run_parent_race(const vf::Args&);
int run_preempt_writer(const vf::Args&);
int run_unlink_race(const vf::Args&);
int run_park(const vf::Args&);

int main(int argc, char** argv) {
    google::InitGoogleLogging(argv[0]);
    FLAGS_logtostderr = true;
    vf::Args args(argc, argv);
    vf::setup_alloc(vf::alloc::Mode::FULL);
    vf::ctl::install();
    std::string mode = args.str("mode");
    // stall watchdog: if neither a stamp was taken nor a round finished for stall_s seconds the workload is
    // stuck (a lock left held, a reader spinning forever). That is a C09 violation for the C09 runs and an
    // inconclusive run for every other property; either way the process ends instead of waiting for the driver.
    {
        uint64_t stall_s = args.num("stall_s", 60);
        if (const char* e = getenv("VERIF_STALL_S")) { stall_s = strtoull(e, nullptr, 10); }
        std::string prop = args.str("prop", "");
        std::thread([stall_s, prop, mode] {
            uint64_t last = 0;
            double since = vf::now_s();
            for (;;) {
                std::this_thread::sleep_for(std::chrono::milliseconds(200));
                uint64_t cur = vf::g_stamp.load() + vf::g_progress.load();
                if (cur != last) {
                    last = cur;
                    since = vf::now_s();
                    continue;
                }
                if (vf::now_s() - since < static_cast<double>(stall_s)) { continue; }
                vf::Report rep(prop, mode + ":watchdog", 0);
                const char* lc = vf::g_lifecycle_call.load();
                if (prop == "C09") {
                    rep.violation("progress:no-operation-completed", "no API call of the workload completed within the stall limit", vf::JObj().num("stall_seconds", stall_s).str("mode", mode).done());
                } else if (prop == "C16" && lc != nullptr) {
                    // the epoch period is milliseconds; a lifecycle call that has not returned after stall_s seconds never will
                    rep.violation("cycle:lifecycle-call-does-not-return", std::string(lc) + "() did not return", vf::JObj().num("stall_seconds", stall_s).str("call", lc).done());
                } else {
                    rep.inconclusive("workload made no progress for " + std::to_string(stall_s) + " s (stuck call); see C09");
                }
                rep.eval();
                rep.distinct(1);
                rep.distinct(2);
                rep.sample("{\"note\":\"stall watchdog fired\"}");
                int rc = rep.finish();
                fflush(stdout);
                _exit(rc);
            }
        }).detach();
    }
    if (mode == "lin") { return run_lin(args); }
    if (mode == "lin_micro") { return run_lin_micro(args); }
    if (mode == "scan") { return run_scan(args); }
    if (mode == "phantom") { return run_phantom(args); }
    if (mode == "phantom_micro") { return run_phantom_micro(args); }
    if (mode == "gc") { return run_gc(args); }
    if (mode == "struct") { return run_struct(args); }
    if (mode == "ddl") { return run_ddl(args); }
    if (mode == "value") { return run_value(args); }
    if (mode == "leak") { return run_leak(args); }
    if (mode == "cycle") { return run_cycle(args); }
    if (mode == "nodeinfo_conc") { return run_nodeinfo_conc(args); }
    if (mode == "collapse_micro") { return run_collapse_micro(args); }
    if (mode == "perm_readers") { return run_perm_readers(args); }
    if (mode == "root_race") { return run_root_race(args); }
    if (mode == "preempt") { return run_preempt(args); }
    if (mode == "parent_race") { return run_parent_race(args); }
    if (mode == "preempt_writer") { return run_preempt_writer(args); }
    if (mode == "unlink_race") { return run_unlink_race(args); }
    if (mode == "park") { return run_park(args); }
    fprintf(stderr, "unknown --mode %s\n", mode.c_str());
    return 2;
}
