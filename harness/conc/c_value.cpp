// C15 (concurrent half): a reader concurrent with overwrites observes one
// complete written value (old or new), never a mixture or a wrong length.
#include "conc_common.h"

using namespace vf;

int run_value(const Args& a) {
    uint64_t seed = a.num("seed", 1);
    uint64_t reads_target = a.num("reads", 200000);
    bool delays = a.num("delays", 1) != 0;
    Report rep(a.str("prop", "C15"), "conc_value", seed);
    rep.set_rule("per key 1..4 overwriters write self-describing values of very different lengths (24 B .. 64 KiB, alignments 1..4096) while 1..8 readers fetch the key through get / scan / iscan; every returned (pointer,length) "
                 "must validate as one complete value written for that key (magic, length field == returned length, fill pattern, key hash) and be aligned as some writer requested; sessions are re-entered constantly with a 1 ms epoch so "
                 "old blocks are really reclaimed and reused; delays at the lock/atomic points. distinct_nontrivial = reads that overlapped an overwrite of the same key, by (API, log2 length of the value seen, changed-length?)");
    yk::init();
    Rng r(seed);
    std::string storage = "cv";
    yk::create_storage(storage);
    const int nkeys = 6;
    std::vector<std::string> keys = {"v0", "v1", std::string(8, 'V'), std::string(8, 'V') + "x", "v4", std::string(17, 'W')};
    std::atomic<uint64_t> next_id{1};
    // last-write stamps per key for overlap accounting
    struct KeyStat {
        std::atomic<uint64_t> writes_begun{0}, writes_done{0};
    };
    std::vector<KeyStat> ks(nkeys);
    {
        Session s;
        s.reenter();
        for (auto& k : keys) { yput(s.tok, storage, k, make_value(next_id.fetch_add(1), k, 64)); }
        s.leave();
    }
    ctl::Profile prof = make_profile(r, 2);
    ctl::g_profile.store(delays ? &prof : nullptr);
    std::atomic<bool> stop{false};
    std::atomic<uint64_t> reads{0}, overlapped{0};
    int nwriters = static_cast<int>(a.num("writers", 6));
    int nreaders = static_cast<int>(a.num("readers", 8));
    std::vector<std::thread> th;
    for (int t = 0; t < nwriters + nreaders; ++t) {
        th.emplace_back([&, t] {
            alloc::set_role(alloc::ROLE_WORKER);
            ctl::thread_begin(t, seed * 31 + t);
            Rng tr(seed * 4099 + t);
            Session ses;
            ses.reenter();
            if (t < nwriters) {
                while (!stop.load(std::memory_order_acquire)) {
                    int ki = static_cast<int>(tr.below(nkeys));
                    static const std::size_t lens[] = {24, 25, 31, 32, 33, 64, 100, 255, 256, 1000, 4096, 20000, 65536};
                    static const std::size_t aligns[] = {1, 2, 8, 16, 64, 512, 4096};
                    std::size_t len = lens[tr.below(13)];
                    std::string v = make_value(next_id.fetch_add(1), keys[ki], len);
                    ks[ki].writes_begun.fetch_add(1);
                    status s = yput(ses.tok, storage, keys[ki], v, false, aligns[tr.below(7)]);
                    ks[ki].writes_done.fetch_add(1);
                    g_progress.fetch_add(1, std::memory_order_relaxed);
                    if (s != status::OK) { rep.violation("cvalue:put-status", "overwrite failed", JObj().str("got", st(s)).done()); }
                    if (tr.chance(1, 3)) { ses.reenter(); }
                }
            } else {
                uint64_t last_len[8] = {};
                while (!stop.load(std::memory_order_acquire)) {
                    int ki = static_cast<int>(tr.below(nkeys));
                    const std::string& k = keys[ki];
                    unsigned api = static_cast<unsigned>(tr.below(3));
                    uint64_t w0 = ks[ki].writes_done.load();
                    const char* p = nullptr;
                    std::size_t len = 0;
                    bool has_len = true;
                    status s = status::OK;
                    if (api == 0) {
                        std::pair<char*, std::size_t> o;
                        s = yget(storage, k, o);
                        p = o.first;
                        len = o.second;
                    } else if (api == 1) {
                        std::vector<ScanTuple> tl;
                        s = yk::scan<char>(storage, k, scan_endpoint::INCLUSIVE, k, scan_endpoint::INCLUSIVE, tl, nullptr, 0, false);
                        if (s == status::OK && tl.size() == 1) {
                            p = std::get<1>(tl[0]);
                            len = std::get<2>(tl[0]);
                        } else if (s == status::OK) {
                            rep.violation("cvalue:scan-lost-key-under-overwrite", "single-point scan of a key that is only ever overwritten returned no entry", JObj().num("n", tl.size()).done());
                            continue;
                        }
                    } else {
                        yk::iscan_context* ctx = nullptr;
                        void* v = nullptr;
                        s = yk::iscan_open(storage, k, scan_endpoint::INCLUSIVE, k, scan_endpoint::INCLUSIVE, tr.chance(1, 2), false, ctx, v);
                        p = static_cast<char*>(v);
                        has_len = false;
                        if (s != status::OK) {
                            rep.violation("cvalue:iscan-lost-key-under-overwrite", "single-point cursor on a key that is only ever overwritten found nothing", JObj().str("got", st(s)).done());
                            if (ctx != nullptr) { yk::iscan_close(ctx); }
                            continue;
                        }
                        // validate before closing: the context does not own the value, the session does
                        uint64_t id = 0;
                        ValCheck vc = check_value_nolen(p, k, id);
                        if (vc != ValCheck::OK) { rep.violation(std::string("cvalue:iscan:") + valcheck_name(vc), "cursor returned a value that is not one complete written value of the key", JObj().str("key", k).done()); }
                        if (ctx != nullptr) { yk::iscan_close(ctx); }
                        p = nullptr;
                    }
                    uint64_t w1 = ks[ki].writes_begun.load();
                    if (s != status::OK) {
                        rep.violation("cvalue:read-status", "read of a key that always exists failed", JObj().str("got", st(s)).num("api", api).done());
                        continue;
                    }
                    if (p != nullptr) {
                        uint64_t id = 0;
                        ValCheck vc = has_len ? check_value(p, len, k, id) : check_value_nolen(p, k, id);
                        if (vc != ValCheck::OK) {
                            rep.violation(std::string(api == 0 ? "cvalue:get:" : "cvalue:scan:") + valcheck_name(vc), "reader observed a (pointer,length) that is not one complete written value of the key",
                                          JObj().str("key", k).num("len", len).done());
                        }
                    }
                    reads.fetch_add(1, std::memory_order_relaxed);
                    g_progress.fetch_add(1, std::memory_order_relaxed);
                    if (w1 > w0) {
                        overlapped.fetch_add(1, std::memory_order_relaxed);
                        uint64_t lg = len == 0 ? 0 : 63 - __builtin_clzll(len);
                        rep.distinct(mix64(api, mix64(lg, last_len[ki] != len ? 1 : 0)));
                    }
                    last_len[ki] = len;
                    if (tr.chance(1, 5)) { ses.reenter(); }
                }
            }
            ses.leave();
            ctl::thread_end();
        });
    }
    uint64_t tick0 = ctl::count_of(ctl::point::EPOCH_LOOP);
    while (reads.load() < reads_target && rep.violations() < 5 && ctl::count_of(ctl::point::EPOCH_LOOP) - tick0 < 120000) { std::this_thread::sleep_for(std::chrono::milliseconds(5)); }
    stop.store(true);
    for (auto& t : th) { t.join(); }
    ctl::g_profile.store(nullptr);
    rep.eval(reads.load());
    rep.count("reads", reads.load());
    rep.count("reads_overlapping_an_overwrite_of_the_key", overlapped.load());
    uint64_t writes = 0;
    for (auto& k : ks) { writes += k.writes_done.load(); }
    rep.count("overwrites", writes);
    rep.count("blocks_reclaimed_by_gc_thread", alloc::counters().frees_by_lib);
    rep.sample(JObj().num("readers", nreaders).num("writers", nwriters).num("reads", reads.load()).num("overlapping", overlapped.load()).num("overwrites", writes).done());
    yk::delete_storage(storage);
    yk::fin();
    drain_alloc_problems(rep);
    if (overlapped.load() == 0) { rep.inconclusive("no read overlapped an overwrite"); }
    return rep.finish();
}
