// C19 (reader side, at the border-node level): "each update is published as a
// single atomic word so a reader sees either the old or the new ordering".
// Lock-free lookups and scans run against one border node whose permutation
// is rewritten all the time by removes / inserts of *other* keys. A key that
// is present for the whole duration of a lookup must be found (removes do not
// change the node version, so a reader that combines the count of one word
// with the ordering of another passes every version check and misses it).
#include "conc_common.h"

using namespace vf;

int run_perm_readers(const Args& a) {
    uint64_t seed = a.num("seed", 1);
    uint64_t reads_target = a.num("reads", 4000000);
    Report rep(a.str("prop", "C19"), "conc_perm_readers", seed);
    rep.set_rule("one border node (9..14 short keys, optionally below an 8-byte prefix); 2 writers remove and re-insert their own keys (every remove/insert publishes a new permutation word; removes leave the node version unchanged), "
                 "1 thread overwrites the watched keys, 4 readers look up / scan: a watched key (first, middle and last rank; never removed) must always be found with a valid value, a scan must be strictly ascending, contain every watched key "
                 "and no key twice; at the end the walker checks the permutation word of every border (count, distinct slots, key order). distinct_nontrivial = reads that overlapped a permutation update, by (API, watched rank class, phase of the writers)");
    yk::init();
    Rng r(seed);
    std::atomic<uint64_t> next_id{1};
    uint64_t total_reads = 0, total_overlap = 0;
    int phases = static_cast<int>(a.num("phases", 6));
    for (int ph = 0; ph < phases && rep.violations() < 8; ++ph) {
        std::string storage = "pr";
        yk::create_storage(storage);
        std::string prefix = ph % 3 == 2 ? "PERMPREF" : "";
        // watched keys: smallest, middle, greatest of the node
        std::vector<std::string> watched = {prefix + "0", prefix + "m", prefix + "z"};
        std::vector<std::vector<std::string>> owned(2);
        int per_writer = static_cast<int>(r.range(3, 5));
        for (int w = 0; w < 2; ++w) {
            for (int i = 0; i < per_writer; ++i) {
                // interleaved around the middle watched key
                char c = static_cast<char>((w == 0 ? 'a' : 'n') + i * 2 + (ph % 2));
                owned[w].push_back(prefix + std::string(1, c) + (i % 2 == 0 ? "" : "x"));
            }
        }
        {
            Session s;
            s.reenter();
            for (auto& k : watched) { yput(s.tok, storage, k, make_value(next_id.fetch_add(1), k, 24)); }
            for (auto& o : owned) {
                for (auto& k : o) { yput(s.tok, storage, k, make_value(next_id.fetch_add(1), k, 24)); }
            }
            s.leave();
        }
        std::atomic<bool> stop{false};
        std::atomic<uint64_t> reads{0}, overlapped{0}, perm_updates{0}, shared_inserts{0};
        std::vector<std::thread> th;
        for (int t = 0; t < 7; ++t) {
            th.emplace_back([&, t] {
                alloc::set_role(alloc::ROLE_WORKER);
                ctl::thread_begin(t, seed * 17 + t);
                Rng tr(seed * 7001 + t + ph * 31);
                Session ses;
                ses.reenter();
                uint64_t n = 0;
                if (t < 2) {
                    auto& mine = owned[t];
                    std::vector<bool> present(mine.size(), true);
                    const std::string shared_key = prefix + "S";
                    while (!stop.load(std::memory_order_acquire)) {
                        if (tr.chance(1, 4)) {
                            // both writers race to insert the same absent key: the node must end up with one entry for it
                            status us = yput(ses.tok, storage, shared_key, make_value(next_id.fetch_add(1), shared_key, 24), true);
                            if (us == status::OK) {
                                shared_inserts.fetch_add(1, std::memory_order_relaxed);
                                status rs = yk::remove(ses.tok, storage, shared_key);
                                if (rs != status::OK) { rep.violation("perm:owner-op-status", "remove of the key this thread just inserted failed", JObj().str("key", shared_key).str("got", st(rs)).done()); }
                                perm_updates.fetch_add(2, std::memory_order_release);
                            } else if (us != status::WARN_UNIQUE_RESTRICTION) {
                                rep.violation("perm:owner-op-status", "unique insert of the contended key returned an unexpected status", JObj().str("got", st(us)).done());
                            }
                            continue;
                        }
                        std::size_t i = tr.below(mine.size());
                        status s;
                        if (present[i]) {
                            s = yk::remove(ses.tok, storage, mine[i]);
                        } else {
                            s = yput(ses.tok, storage, mine[i], make_value(next_id.fetch_add(1), mine[i], 24), true);
                        }
                        if (s != status::OK) { rep.violation("perm:owner-op-status", "remove / unique insert of a key only this thread touches failed", JObj().str("key", mine[i]).str("got", st(s)).boolean("was_present", present[i]).done()); }
                        present[i] = !present[i];
                        perm_updates.fetch_add(1, std::memory_order_release);
                        g_progress.fetch_add(1, std::memory_order_relaxed);
                        if (++n % 64 == 0) { ses.reenter(); }
                    }
                    for (std::size_t i = 0; i < mine.size(); ++i) {
                        if (!present[i]) { yput(ses.tok, storage, mine[i], make_value(next_id.fetch_add(1), mine[i], 24), true); }
                    }
                } else if (t == 2) {
                    while (!stop.load(std::memory_order_acquire)) {
                        const std::string& k = watched[tr.below(3)];
                        status s = yput(ses.tok, storage, k, make_value(next_id.fetch_add(1), k, 24));
                        if (s != status::OK) { rep.violation("perm:overwrite-status", "overwrite of a watched key failed", JObj().str("got", st(s)).done()); }
                        g_progress.fetch_add(1, std::memory_order_relaxed);
                        if (++n % 64 == 0) { ses.reenter(); }
                    }
                } else {
                    while (!stop.load(std::memory_order_acquire)) {
                        unsigned wi = static_cast<unsigned>(tr.below(3));
                        const std::string& k = watched[wi];
                        uint64_t u0 = perm_updates.load(std::memory_order_acquire);
                        unsigned api = tr.chance(1, 8) ? 1 : 0;
                        if (api == 0) {
                            std::pair<char*, std::size_t> g;
                            status s = yget(storage, k, g);
                            if (s != status::OK) {
                                rep.violation("perm:present-key-not-found", "lookup of a key that is never removed failed while other keys of its border node were removed / inserted",
                                              JObj().str("key", k).str("got", st(s)).num("rank_class", wi).done());
                            } else {
                                uint64_t vid = 0;
                                if (check_value(g.first, g.second, k, vid) != ValCheck::OK) { rep.violation("perm:lookup-foreign-value", "lookup returned the value of another slot", JObj().str("key", k).done()); }
                            }
                        } else {
                            std::vector<ScanTuple> tl;
                            status s = yk::scan<char>(storage, "", scan_endpoint::INF, "", scan_endpoint::INF, tl, nullptr, 0, false);
                            if (s != status::OK) { rep.violation("perm:scan-status", "full scan failed", JObj().str("got", st(s)).done()); }
                            std::size_t seen_w = 0;
                            for (std::size_t i = 0; i < tl.size(); ++i) {
                                const std::string& sk = std::get<0>(tl[i]);
                                if (i > 0 && !(std::get<0>(tl[i - 1]) < sk)) {
                                    rep.violation("perm:scan-not-strictly-ascending", "scan over a node whose permutation is being rewritten returned keys out of order or twice", JObj().str("a", std::get<0>(tl[i - 1])).str("b", sk).done());
                                }
                                if (std::find(watched.begin(), watched.end(), sk) != watched.end()) { ++seen_w; }
                                uint64_t vid = 0;
                                if (check_value(std::get<1>(tl[i]), std::get<2>(tl[i]), sk, vid) != ValCheck::OK) { rep.violation("perm:scan-foreign-value", "scan paired a key with the value of another slot", JObj().str("key", sk).done()); }
                            }
                            if (s == status::OK && seen_w != watched.size()) {
                                rep.violation("perm:scan-missed-present-key", "scan missed a key that is never removed", JObj().num("watched_seen", seen_w).num("result", tl.size()).done());
                            }
                        }
                        uint64_t u1 = perm_updates.load(std::memory_order_acquire);
                        reads.fetch_add(1, std::memory_order_relaxed);
                        g_progress.fetch_add(1, std::memory_order_relaxed);
                        if (u1 != u0) {
                            overlapped.fetch_add(1, std::memory_order_relaxed);
                            rep.distinct(mix64(api, mix64(wi, mix64(ph, std::min<uint64_t>(u1 - u0, 3)))));
                        }
                        if (++n % 256 == 0) { ses.reenter(); }
                    }
                }
                ses.leave();
                ctl::thread_end();
            });
        }
        uint64_t per_phase = reads_target / static_cast<uint64_t>(phases) + 1;
        uint64_t tick0 = ctl::count_of(ctl::point::EPOCH_LOOP);
        while (reads.load() < per_phase && rep.violations() < 8 && ctl::count_of(ctl::point::EPOCH_LOOP) - tick0 < 120000) { std::this_thread::sleep_for(std::chrono::milliseconds(2)); }
        stop.store(true);
        for (auto& t : th) { t.join(); }
        total_reads += reads.load();
        total_overlap += overlapped.load();
        rep.count("permutation_updates", perm_updates.load());
        rep.count("contended_inserts_of_one_key", shared_inserts.load());
        // quiescent: permutation words are valid orderings
        yk::tree_instance* ti = nullptr;
        yk::find_storage(storage, &ti);
        Walker w(false);
        WalkResult wr = w.walk(ti);
        for (auto& [ek, ed] : wr.errors) { rep.violation("walker:" + ek, "structure after the permutation churn", ed); }
        std::size_t want_keys = watched.size() + owned[0].size() + owned[1].size();
        if (wr.entries.size() != want_keys) { rep.violation("perm:key-count-after-churn", "number of reachable keys differs from the model after all owners re-inserted their keys", JObj().num("reachable", wr.entries.size()).num("model", want_keys).done()); }
        if (ph == 0) { rep.sample(JObj().num("keys_in_node", want_keys).num("reads", reads.load()).num("reads_overlapping_an_update", overlapped.load()).num("permutation_updates", perm_updates.load()).done()); }
        yk::delete_storage(storage);
    }
    rep.eval(total_reads);
    rep.count("reads", total_reads);
    rep.count("reads_overlapping_a_permutation_update", total_overlap);
    yk::fin();
    drain_alloc_problems(rep);
    if (total_overlap < 100) { rep.inconclusive("fewer than 100 reads overlapped a permutation update"); }
    return rep.finish();
}
