// C01: linearizability of put / unique-put / get / remove, checked per key
// with Wing-Gong-Lowe search on short round histories; plus the quiescent
// coherence oracle (C08) after every round.
#include "conc_common.h"

using namespace vf;

namespace {

struct Scenario {
    std::string name;
    std::string storage;
    std::vector<std::string> universe; // keys the workers operate on
    std::vector<std::string> fillers;  // permanent keys nobody touches (shape only)
    std::vector<std::vector<std::string>> churn; // private families for churn threads
    std::size_t max_hot{6};
};

std::string k8(const char* prefix, unsigned n) {
    char b[16];
    snprintf(b, sizeof b, "%s%05u", prefix, n);
    return std::string(b);
}

std::vector<Scenario> make_scenarios() {
    std::vector<Scenario> v;
    {
        Scenario s;
        s.name = "tiny-single-border";
        s.storage = "lin-tiny";
        s.universe = {"a", "b", std::string("c\0", 2)};
        s.max_hot = 3;
        v.push_back(s);
    }
    {
        Scenario s;
        s.name = "border-about-to-split";
        s.storage = "lin-b15";
        for (unsigned i = 0; i < 18; ++i) { s.universe.push_back(std::string("b") + static_cast<char>('A' + i)); }
        s.max_hot = 5;
        v.push_back(s);
    }
    {
        Scenario s;
        s.name = "interior-levels-with-churn";
        s.storage = "lin-big";
        for (unsigned i = 0; i < 420; ++i) { s.fillers.push_back(k8("f", i * 10)); }
        // hot keys: first/last of the tree and keys adjacent to fillers (border boundaries move with churn)
        s.universe = {"", "a", k8("f", 5), k8("f", 1495), k8("f", 1505), k8("f", 2995), k8("f", 4185), "zzzzzzzz"};
        // churn families sit between fillers next to the hot keys: "f014c00".. lies between f01490 and f01500
        for (unsigned f = 0; f < 6; ++f) {
            std::vector<std::string> fam;
            for (unsigned i = 0; i < 40; ++i) {
                char b[16];
                snprintf(b, sizeof b, "f0%02uc%02u", 14 + f, i);
                fam.emplace_back(b);
            }
            s.churn.push_back(fam);
        }
        s.max_hot = 6;
        v.push_back(s);
    }
    {
        Scenario s;
        s.name = "trie-layers";
        s.storage = "lin-layers";
        std::string p(8, 'P'), q(8, 'Q');
        s.universe = {p, p + "x", p + "y", p + q, p + q + "z", p + q + p + "w", q + "a", p.substr(0, 7), p + std::string(1, '\0')};
        s.max_hot = 6;
        v.push_back(s);
    }
    {
        Scenario s;
        s.name = "empty-and-refill";
        s.storage = "lin-refill";
        for (unsigned i = 0; i < 24; ++i) { s.universe.push_back(k8("r", i)); }
        s.max_hot = 24;
        v.push_back(s);
    }
    return v;
}

struct RoundStats {
    uint64_t overlaps[4][4] = {};
};

} // namespace

int run_lin(const Args& a) {
    uint64_t seed = a.num("seed", 1);
    uint64_t rounds = a.num("rounds", 1000);
    int max_threads = static_cast<int>(a.num("maxthreads", 8));
    bool delays = a.num("delays", 1) != 0;
    int only_scn = static_cast<int>(a.num("scenario", 99));
    Report rep(a.str("prop", "C01"), "conc_lin", seed);
    rep.set_rule("rounds of T in {2,3,4,8,..} threads x 6..20 calls (put/unique-put/get/remove, 4 mixes) on 1..6 hot keys of 5 shape scenarios (single border emptied to a deleted root and revived; "
                 "border with 13..15 entries splitting under contention; 420-key tree with interior levels and churn threads splitting/unlinking neighbours; trie layers created and retired; "
                 "whole-tree empty/refill); every call stamped from one global counter at the client boundary, values carry unique ids; each key's sub-history (incl. a quiescent read-back) is "
                 "checked with Wing-Gong-Lowe search against a register-with-absence automaton; value self-validation; delay injection at hook points (remove window, atomics, lock holds). "
                 "distinct_nontrivial = distinct per-key sub-history patterns (op/outcome sequence + overlap structure) containing >=1 pair of operations that overlapped in time");
    yk::init();
    Rng r(seed);
    auto scenarios = make_scenarios();
    Session main_ses;
    main_ses.reenter();
    std::atomic<uint64_t> next_id{1};
    for (auto& sc : scenarios) {
        yk::create_storage(sc.storage);
        for (auto& f : sc.fillers) {
            std::string v = make_value(next_id.fetch_add(1), f, 24);
            yput(main_ses.tok, sc.storage, f, v);
        }
    }
    main_ses.leave();
    uint64_t overlaps[4][4] = {};
    LinChecker chk(a.num("budget", 2000000));
    uint64_t max_steps = 0;
    double total_steps = 0;
    uint64_t checked_keys = 0;
    alloc::Counters c_prev = alloc::counters();

    for (uint64_t rd = 0; rd < rounds && rep.violations() < 10; ++rd) {
        Scenario& sc = scenarios[only_scn < static_cast<int>(scenarios.size()) ? only_scn : rd % scenarios.size()];
        static const int tcs[] = {2, 2, 3, 4, 4, 8, 8, 16};
        int T = tcs[r.below(8)];
        if (T > max_threads) { T = max_threads; }
        int nchurn = sc.churn.empty() ? 0 : static_cast<int>(r.range(1, std::min<uint64_t>(sc.churn.size(), 4)));
        std::size_t nops = r.range(6, 20);
        int mix = static_cast<int>(r.below(5));
        std::size_t nhot = r.range(1, std::min<std::size_t>(sc.max_hot, sc.universe.size()));
        std::vector<uint32_t> hot;
        while (hot.size() < nhot) {
            uint32_t k = static_cast<uint32_t>(r.below(sc.universe.size()));
            if (std::find(hot.begin(), hot.end(), k) == hot.end()) { hot.push_back(k); }
        }
        // ---- key table of the round: universe + churn keys
        std::vector<std::string> keys = sc.universe;
        std::vector<std::pair<std::size_t, std::size_t>> churn_ranges;
        for (int c = 0; c < nchurn; ++c) {
            churn_ranges.emplace_back(keys.size(), keys.size() + sc.churn[c].size());
            keys.insert(keys.end(), sc.churn[c].begin(), sc.churn[c].end());
        }
        // ---- prep (quiescent): shape the tree, then learn the initial state of every key of the round
        main_ses.reenter();
        if (sc.name == "border-about-to-split") {
            // bring the number of present non-hot keys so that total is 12..15 when hot keys are absent
            std::size_t target = r.range(12, 15);
            std::size_t present = 0;
            for (uint32_t i = 0; i < sc.universe.size(); ++i) {
                bool is_hot = std::find(hot.begin(), hot.end(), i) != hot.end();
                std::pair<char*, std::size_t> o;
                bool here = yget(sc.storage, sc.universe[i], o) == status::OK;
                if (is_hot) { continue; }
                if (present < target && !here) {
                    yput(main_ses.tok, sc.storage, sc.universe[i], make_value(next_id.fetch_add(1), sc.universe[i], 24));
                    here = true;
                } else if (present >= target && here) {
                    yk::remove(main_ses.tok, sc.storage, sc.universe[i]);
                    here = false;
                }
                present += here ? 1 : 0;
            }
        }
        if (sc.name == "empty-and-refill" && r.chance(1, 2)) {
            for (auto& k : sc.universe) { yk::remove(main_ses.tok, sc.storage, k); }
        }
        std::vector<uint64_t> init(keys.size(), 0);
        for (std::size_t i = 0; i < keys.size(); ++i) {
            std::pair<char*, std::size_t> o;
            status g = yget(sc.storage, keys[i], o);
            if (g == status::OK) {
                uint64_t id = 0;
                ValCheck vc = check_value(o.first, o.second, keys[i], id);
                if (vc != ValCheck::OK) { rep.violation(std::string("lin:quiescent-get:") + valcheck_name(vc), "quiescent get returned an invalid value", JObj().str("key", hex(keys[i])).done()); }
                init[i] = id;
            }
        }
        main_ses.leave();
        ctl::Profile prof = make_profile(r, delays ? static_cast<int>(r.below(7)) : 0);
        ctl::g_profile.store(delays ? &prof : nullptr);
        // ---- run
        std::vector<std::vector<Ev>> tev(T + nchurn);
        std::atomic<uint64_t> bad_status{0};
        uint64_t round_seed = seed * 1000003 + rd;
        run_round(T + nchurn, round_seed, [&](int tid) {
            Rng tr(round_seed * 977 + tid);
            Session ses;
            ses.reenter();
            auto& out = tev[tid];
            auto do_op = [&](uint32_t ki, unsigned kind) {
                const std::string& key = keys[ki];
                Ev e{};
                e.thread = static_cast<uint16_t>(tid);
                e.key = ki;
                if (kind == OP_PUT || kind == OP_UPUT) {
                    e.kind = static_cast<OpKind>(kind);
                    e.arg = next_id.fetch_add(1);
                    std::size_t len = tr.chance(1, 40) ? 65536 : tr.range(24, 300);
                    std::string v = make_value(e.arg, key, len);
                    static const std::size_t aligns[] = {1, 8, 16, 64};
                    e.inv = stamp();
                    status s = yput(ses.tok, sc.storage, key, v, kind == OP_UPUT, aligns[tr.below(4)]);
                    e.resp = stamp();
                    if (s == status::OK) {
                        e.out = OUT_OK;
                    } else if (s == status::WARN_UNIQUE_RESTRICTION && kind == OP_UPUT) {
                        e.out = OUT_UNIQUE;
                    } else {
                        bad_status.fetch_add(1);
                        return;
                    }
                } else if (kind == OP_GET) {
                    e.kind = OP_GET;
                    std::pair<char*, std::size_t> o;
                    e.inv = stamp();
                    status s = yget(sc.storage, key, o);
                    e.resp = stamp();
                    if (s == status::OK) {
                        e.out = OUT_OK;
                        ValCheck vc = check_value(o.first, o.second, key, e.val);
                        if (vc != ValCheck::OK) {
                            rep.violation(std::string("lin:get:") + valcheck_name(vc), "OK get returned a null / torn / foreign value",
                                          JObj().str("scenario", sc.name).str("key", hex(key)).num("len", o.second).num("threads", T).done());
                            return;
                        }
                    } else if (s == status::WARN_NOT_EXIST) {
                        e.out = OUT_ABSENT;
                    } else {
                        bad_status.fetch_add(1);
                        return;
                    }
                } else {
                    e.kind = OP_REMOVE;
                    e.inv = stamp();
                    status s = yk::remove(ses.tok, sc.storage, key);
                    e.resp = stamp();
                    if (s == status::OK) {
                        e.out = OUT_OK;
                    } else if (s == status::OK_NOT_FOUND || s == status::OK_ROOT_IS_NULL) {
                        e.out = OUT_ABSENT;
                    } else {
                        bad_status.fetch_add(1);
                        return;
                    }
                }
                out.push_back(e);
            };
            if (tid >= T) {
                // churn thread: private family inserted and removed in waves (splits / unlinks next to the hot keys)
                auto [lo, hi] = churn_ranges[tid - T];
                for (int wave = 0; wave < 2; ++wave) {
                    for (std::size_t i = lo; i < hi; ++i) { do_op(static_cast<uint32_t>(i), OP_PUT); }
                    ses.reenter();
                    for (std::size_t i = lo; i < hi; ++i) {
                        if (tr.chance(1, 8)) { do_op(static_cast<uint32_t>(i), OP_GET); }
                        do_op(static_cast<uint32_t>(i), OP_REMOVE);
                    }
                    ses.reenter();
                }
                ses.leave();
                return;
            }
            for (std::size_t i = 0; i < nops; ++i) {
                uint32_t ki = tr.chance(9, 10) ? hot[tr.below(hot.size())] : static_cast<uint32_t>(tr.below(sc.universe.size()));
                unsigned x = static_cast<unsigned>(tr.below(100));
                unsigned kind;
                switch (mix) {
                    case 0: kind = x < 60 ? OP_GET : (x < 80 ? OP_REMOVE : OP_PUT); break;   // get-heavy vs remove/put
                    case 1: kind = x < 45 ? OP_UPUT : (x < 90 ? OP_REMOVE : OP_GET); break;  // unique-put vs remove
                    case 2: kind = x < 70 ? OP_PUT : (x < 90 ? OP_GET : OP_REMOVE); break;   // put vs put
                    case 3: kind = x < 50 ? OP_REMOVE : (x < 85 ? OP_PUT : OP_GET); break;   // remove-heavy (empties nodes)
                    default: kind = x < 30 ? OP_PUT : (x < 45 ? OP_UPUT : (x < 75 ? OP_GET : OP_REMOVE)); break;
                }
                do_op(ki, kind);
                if (tr.chance(1, 4)) { ses.reenter(); }
            }
            ses.leave();
        });
        ctl::g_profile.store(nullptr);
        if (bad_status.load() != 0) { rep.violation("lin:unexpected-status", "an operation returned a status outside its documented set", JObj().str("scenario", sc.name).num("count", bad_status.load()).done()); }
        // ---- quiescent read-back, appended to the histories
        std::vector<std::vector<Ev>> per_key(keys.size());
        for (auto& tv : tev) {
            for (auto& e : tv) { per_key[e.key].push_back(e); }
        }
        Model model;
        main_ses.reenter();
        for (std::size_t i = 0; i < keys.size(); ++i) {
            Ev e{};
            e.kind = OP_GET;
            e.thread = 999;
            e.key = static_cast<uint32_t>(i);
            std::pair<char*, std::size_t> o;
            e.inv = stamp();
            status g = yget(sc.storage, keys[i], o);
            e.resp = stamp();
            if (g == status::OK) {
                e.out = OUT_OK;
                ValCheck vc = check_value(o.first, o.second, keys[i], e.val);
                if (vc != ValCheck::OK) {
                    rep.violation(std::string("lin:quiescent-get:") + valcheck_name(vc), "quiescent get returned an invalid value", JObj().str("key", hex(keys[i])).done());
                    continue;
                }
                model[keys[i]] = std::string(o.first, o.second);
            } else {
                e.out = OUT_ABSENT;
            }
            per_key[i].push_back(e);
        }
        bool do_coherence = sc.fillers.empty() || (rd / scenarios.size()) % 4 == 0;
        if (do_coherence) {
            for (auto& f : sc.fillers) {
                std::pair<char*, std::size_t> o;
                if (yget(sc.storage, f, o) == status::OK) { model[f] = std::string(o.first, o.second); }
            }
        }
        main_ses.leave();
        // ---- check every key (evaluations = key sub-histories checked)
        rep.count("rounds");
        rep.count("rounds_" + sc.name);
        rep.count("threads_total", T + nchurn);
        for (std::size_t i = 0; i < keys.size(); ++i) {
            auto& h = per_key[i];
            if (h.size() <= 1) { continue; }
            // overlap census + pattern hash
            bool any_overlap = false;
            std::sort(h.begin(), h.end(), [](const Ev& x, const Ev& y) { return x.inv < y.inv; });
            uint64_t pat = 0;
            for (std::size_t x = 0; x < h.size(); ++x) {
                pat = mix64(pat, h[x].kind * 4 + h[x].out);
                for (std::size_t y = x + 1; y < h.size() && h[y].inv < h[x].resp; ++y) {
                    ++overlaps[h[x].kind][h[y].kind];
                    any_overlap = true;
                    pat = mix64(pat, 0x100 + (y - x));
                }
            }
            for (auto& e : h) { rep.count(std::string("op_") + opname(e.kind)); }
            LinResult lr = chk.check(h, init[i]);
            rep.eval();
            ++checked_keys;
            total_steps += static_cast<double>(lr.steps);
            max_steps = std::max(max_steps, lr.steps);
            if (lr.verdict < 0) {
                rep.count("keys_inconclusive_budget");
                continue;
            }
            if (any_overlap) {
                rep.distinct(pat);
                rep.count("key_histories_with_overlap");
            }
            if (lr.verdict == 0) {
                std::vector<std::string> hist;
                for (auto& e : h) { hist.push_back(ev_json(e)); }
                JObj d;
                d.str("scenario", sc.name).str("key", hex(keys[i])).num("initial_value", init[i]).num("threads", T).num("churn_threads", nchurn).num("round", rd).raw("history", jarr(hist));
                // classify by the kinds of operations involved
                bool has_uput = false, has_remove = false, has_put = false;
                for (auto& e : h) {
                    has_uput = has_uput || e.kind == OP_UPUT;
                    has_remove = has_remove || e.kind == OP_REMOVE;
                    has_put = has_put || e.kind == OP_PUT;
                }
                std::string key = "lin:not-linearizable";
                rep.violation(key, "no sequential order of this key's operations respects real time and map semantics", d.done());
            } else if (any_overlap && rep.get("samples_taken") < 3) {
                std::vector<std::string> hist;
                for (auto& e : h) { hist.push_back(ev_json(e)); }
                rep.sample(JObj().str("scenario", sc.name).str("key", hex(keys[i])).num("initial_value", init[i]).raw("history", jarr(hist)).str("verdict", "linearizable").done());
                rep.count("samples_taken");
            }
        }
        // ---- structure + three-way coherence at the quiescent point (C08 oracle)
        WalkResult wr;
        // the big scenario (420 fillers) is cross-checked at every fourth of its quiescent points, the small ones always
        if (do_coherence) {
            coherence_check(rep, sc.storage, model, true, &wr);
            rep.maxc("max_tree_depth", wr.max_depth);
        }
        drain_alloc_problems(rep);
        alloc::Counters c_now = alloc::counters();
        if (c_now.node_allocs != c_prev.node_allocs) { rep.count("rounds_with_node_allocation"); }
        if (c_now.node_frees != c_prev.node_frees) { rep.count("rounds_with_node_release"); }
        rep.count("nodes_allocated", c_now.node_allocs - c_prev.node_allocs);
        rep.count("nodes_released", c_now.node_frees - c_prev.node_frees);
        c_prev = c_now;
    }
    static const char* kn[] = {"put", "uput", "get", "remove"};
    uint64_t total_overlaps = 0;
    for (int x = 0; x < 4; ++x) {
        for (int y = x; y < 4; ++y) {
            uint64_t n = overlaps[x][y] + (x != y ? overlaps[y][x] : 0);
            if (n != 0) { rep.count(std::string("overlap_") + kn[x] + "_x_" + kn[y], n); }
            total_overlaps += n;
        }
    }
    rep.count("lin_search_steps_max", max_steps);
    rep.count("lin_search_steps_mean", checked_keys != 0U ? static_cast<uint64_t>(total_steps / static_cast<double>(checked_keys)) : 0);
    rep.count("key_histories_checked", checked_keys);
    rep.note("hook_counts", ctl::counts_json());
    rep.note("delays_injected", ctl::delays_json());
    for (auto& sc : scenarios) { yk::delete_storage(sc.storage); }
    yk::fin();
    drain_alloc_problems(rep);
    if (alloc::counters().live_blocks != 0) { rep.violation("lin:blocks-live-after-fin", "blocks live after fin", JObj().num("live", alloc::counters().live_blocks).done()); }
    if (total_overlaps == 0) { rep.inconclusive("no two operations on one key overlapped in time"); }
    return rep.finish();
}

// ---------------------------------------------------------------------------------------------------
// C01 micro-races: the same checker, but hundreds of thousands of tiny races (2..4 threads x 1..3 calls on
// one or two keys) on small trees of changing shape, so that windows of a few instructions are hit.
int run_lin_micro(const Args& a) {
    uint64_t seed = a.num("seed", 1);
    uint64_t races = a.num("races", 300000);
    Report rep(a.str("prop", "C01"), "conc_lin_micro", seed);
    rep.set_rule("tiny races: T in {2,3,4} persistent threads released together (random skew 0..400 pause cycles) perform 1..3 calls each (put / unique-put / get / remove, value lengths 24..300 B) on one or two "
                 "hot keys; the tree is rebuilt every 4000 races with a new shape: hot key alone in the storage (emptied root, revival), first / middle / last entry of a border holding 2..15 entries (15: the "
                 "next insert splits), under 40..300 fillers with interior levels, or inside a next layer (P8+x, P8 itself next to its link); every race is checked with the Wing-Gong-Lowe search "
                 "including a quiescent read-back; walker + coherence check when the tree is rebuilt. distinct_nontrivial = distinct per-key sub-history patterns with >=1 overlapping pair");
    yk::init();
    Rng r(seed);
    std::atomic<uint64_t> next_id{1};
    std::string storage = "lm";
    Session main_ses;
    std::vector<std::string> hot;
    std::vector<std::string> fillers;
    LinChecker chk(200000);
    uint64_t overlaps = 0;
    const char* shape = "";
    bool created = false;
    struct Plan {
        uint32_t key;
        unsigned kind;
        uint32_t len;
    };
    for (uint64_t rc = 0; rc < races && rep.violations() < 10; ++rc) {
        if (rc % 4000 == 0) {
            if (created) {
                // quiescent cross-check of the tree that is being retired
                Model model;
                main_ses.reenter();
                std::vector<std::string> all = fillers;
                all.insert(all.end(), hot.begin(), hot.end());
                for (auto& k : all) {
                    std::pair<char*, std::size_t> o;
                    if (yget(storage, k, o) == status::OK) { model[k] = std::string(o.first, o.second); }
                }
                main_ses.leave();
                coherence_check(rep, storage, model, true, nullptr);
                drain_alloc_problems(rep);
                yk::delete_storage(storage);
            }
            yk::create_storage(storage);
            created = true;
            hot.clear();
            fillers.clear();
            unsigned sh = static_cast<unsigned>(r.below(6));
            std::size_t nf = 0;
            std::string pfx;
            switch (sh) {
                case 0: shape = "alone"; nf = 0; break;
                case 1: shape = "small-border"; nf = r.range(1, 12); break;
                case 2: shape = "border-14-or-15"; nf = r.range(13, 14); break;
                case 3: shape = "interior-levels"; nf = r.range(40, 300); break;
                case 4: shape = "next-layer"; nf = r.range(0, 14); pfx = std::string(8, 'P'); break;
                default: shape = "next-layer-full"; nf = r.range(13, 40); pfx = std::string(8, 'P'); break;
            }
            for (std::size_t i = 0; i < nf; ++i) {
                char b[16];
                snprintf(b, sizeof b, "f%04zu", i * 2);
                fillers.push_back(pfx + b);
            }
            // hot keys: before all fillers, between two fillers, after all fillers; in layered shapes also the 8-byte prefix itself
            std::size_t nh = r.range(1, 2);
            for (std::size_t i = 0; i < nh; ++i) {
                char b[16];
                switch (r.below(3)) {
                    case 0: snprintf(b, sizeof b, "a%zu", i); break;
                    case 1: snprintf(b, sizeof b, "f%04zu", (nf / 2) * 2 + 1); break;
                    default: snprintf(b, sizeof b, "z%zu", i); break;
                }
                std::string k = pfx + b;
                if (!pfx.empty() && r.chance(1, 4)) { k = pfx; }
                if (std::find(hot.begin(), hot.end(), k) == hot.end()) { hot.push_back(k); }
            }
            main_ses.reenter();
            for (auto& f : fillers) { yput(main_ses.tok, storage, f, make_value(next_id.fetch_add(1), f, 24)); }
            main_ses.leave();
            rep.count(std::string("trees_") + shape);
        }
        int T = static_cast<int>(r.range(2, 4));
        // plans
        std::vector<std::vector<Plan>> plans(T);
        unsigned mix = static_cast<unsigned>(r.below(4));
        for (int t = 0; t < T; ++t) {
            std::size_t n = r.range(1, 3);
            for (std::size_t i = 0; i < n; ++i) {
                unsigned x = static_cast<unsigned>(r.below(100));
                unsigned kind;
                switch (mix) {
                    case 0: kind = x < 40 ? OP_GET : (x < 70 ? OP_REMOVE : OP_PUT); break;
                    case 1: kind = x < 45 ? OP_UPUT : (x < 90 ? OP_REMOVE : OP_GET); break;
                    case 2: kind = x < 60 ? OP_PUT : (x < 80 ? OP_GET : OP_REMOVE); break;
                    default: kind = x < 30 ? OP_PUT : (x < 50 ? OP_UPUT : (x < 75 ? OP_GET : OP_REMOVE)); break;
                }
                plans[t].push_back(Plan{static_cast<uint32_t>(r.below(hot.size())), kind, static_cast<uint32_t>(r.range(24, 300))});
            }
        }
        // initial state
        std::vector<uint64_t> init(hot.size(), 0);
        main_ses.reenter();
        for (std::size_t i = 0; i < hot.size(); ++i) {
            std::pair<char*, std::size_t> o;
            if (yget(storage, hot[i], o) == status::OK) {
                uint64_t id = 0;
                if (check_value(o.first, o.second, hot[i], id) != ValCheck::OK) { rep.violation("lin:quiescent-get:invalid-value", "quiescent get returned an invalid value", "{}"); }
                init[i] = id;
            }
        }
        main_ses.leave();
        std::vector<std::vector<Ev>> tev(T);
        std::vector<uint32_t> skew(T);
        for (auto& s : skew) { s = static_cast<uint32_t>(r.below(r.chance(1, 2) ? 60 : 400)); }
        std::atomic<uint64_t> bad_status{0};
        run_round(T, seed * 6151 + rc, [&](int tid) {
            Session ses;
            ses.reenter();
            for (uint32_t k = skew[tid]; k > 0; --k) { _mm_pause(); }
            for (auto& p : plans[tid]) {
                const std::string& key = hot[p.key];
                Ev e{};
                e.thread = static_cast<uint16_t>(tid);
                e.key = p.key;
                e.kind = static_cast<OpKind>(p.kind);
                if (p.kind == OP_PUT || p.kind == OP_UPUT) {
                    e.arg = next_id.fetch_add(1);
                    std::string v = make_value(e.arg, key, p.len);
                    e.inv = stamp();
                    status s = yput(ses.tok, storage, key, v, p.kind == OP_UPUT, 8);
                    e.resp = stamp();
                    if (s == status::OK) {
                        e.out = OUT_OK;
                    } else if (s == status::WARN_UNIQUE_RESTRICTION && p.kind == OP_UPUT) {
                        e.out = OUT_UNIQUE;
                    } else {
                        bad_status.fetch_add(1);
                        continue;
                    }
                } else if (p.kind == OP_GET) {
                    std::pair<char*, std::size_t> o;
                    e.inv = stamp();
                    status s = yget(storage, key, o);
                    e.resp = stamp();
                    if (s == status::OK) {
                        e.out = OUT_OK;
                        ValCheck vc = check_value(o.first, o.second, key, e.val);
                        if (vc != ValCheck::OK) {
                            rep.violation(std::string("lin:get:") + valcheck_name(vc), "OK get returned a null / torn / foreign value", JObj().str("shape", shape).str("key", hex(key)).num("len", o.second).done());
                            continue;
                        }
                    } else if (s == status::WARN_NOT_EXIST) {
                        e.out = OUT_ABSENT;
                    } else {
                        bad_status.fetch_add(1);
                        continue;
                    }
                } else {
                    e.inv = stamp();
                    status s = yk::remove(ses.tok, storage, key);
                    e.resp = stamp();
                    if (s == status::OK) {
                        e.out = OUT_OK;
                    } else if (s == status::OK_NOT_FOUND || s == status::OK_ROOT_IS_NULL) {
                        e.out = OUT_ABSENT;
                    } else {
                        bad_status.fetch_add(1);
                        continue;
                    }
                }
                tev[tid].push_back(e);
            }
            ses.leave();
        });
        if (bad_status.load() != 0) { rep.violation("lin:unexpected-status", "an operation returned a status outside its documented set", JObj().str("shape", shape).done()); }
        // read-back + check
        std::vector<std::vector<Ev>> per_key(hot.size());
        for (auto& tv : tev) {
            for (auto& e : tv) { per_key[e.key].push_back(e); }
        }
        main_ses.reenter();
        for (std::size_t i = 0; i < hot.size(); ++i) {
            Ev e{};
            e.kind = OP_GET;
            e.thread = 999;
            e.key = static_cast<uint32_t>(i);
            std::pair<char*, std::size_t> o;
            e.inv = stamp();
            status g = yget(storage, hot[i], o);
            e.resp = stamp();
            if (g == status::OK) {
                e.out = OUT_OK;
                if (check_value(o.first, o.second, hot[i], e.val) != ValCheck::OK) {
                    rep.violation("lin:quiescent-get:invalid-value", "quiescent get returned an invalid value", JObj().str("shape", shape).done());
                    continue;
                }
            } else {
                e.out = OUT_ABSENT;
            }
            per_key[i].push_back(e);
        }
        main_ses.leave();
        for (std::size_t i = 0; i < hot.size(); ++i) {
            auto& h = per_key[i];
            if (h.size() <= 1) { continue; }
            std::sort(h.begin(), h.end(), [](const Ev& x, const Ev& y) { return x.inv < y.inv; });
            bool any_overlap = false;
            uint64_t pat = hash_bytes(shape);
            for (std::size_t x = 0; x < h.size(); ++x) {
                pat = mix64(pat, h[x].kind * 4 + h[x].out);
                for (std::size_t y = x + 1; y < h.size() && h[y].inv < h[x].resp; ++y) {
                    any_overlap = true;
                    pat = mix64(pat, 0x100 + (y - x));
                }
            }
            rep.eval();
            LinResult lr = chk.check(h, init[i]);
            if (any_overlap) {
                ++overlaps;
                rep.distinct(pat);
            }
            if (lr.verdict == 0) {
                std::vector<std::string> hist;
                for (auto& e : h) { hist.push_back(ev_json(e)); }
                rep.violation("lin:not-linearizable", "no sequential order of this key's operations respects real time and map semantics",
                              JObj().str("shape", shape).str("key", hex(hot[i])).num("initial_value", init[i]).num("threads", T).num("fillers", fillers.size()).num("race", rc).raw("history", jarr(hist)).done());
            } else if (any_overlap && rep.get("samples_taken") < 3) {
                std::vector<std::string> hist;
                for (auto& e : h) { hist.push_back(ev_json(e)); }
                rep.sample(JObj().str("shape", shape).str("key", hex(hot[i])).num("initial_value", init[i]).raw("history", jarr(hist)).str("verdict", "linearizable").done());
                rep.count("samples_taken");
            }
        }
        rep.count("races");
    }
    rep.count("key_histories_with_overlap", overlaps);
    yk::delete_storage(storage);
    yk::fin();
    drain_alloc_problems(rep);
    if (overlaps < 100) { rep.inconclusive("fewer than 100 key histories with overlapping operations"); }
    return rep.finish();
}
