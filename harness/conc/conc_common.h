// Shared infrastructure of the multi-thread harnesses: global stamp clock,
// self-describing values (M2), event records and the per-key linearizability
// checker (M3), delay profiles, round runner.
#pragma once

#include <functional>
#include <thread>
#include <unordered_map>
#include <unordered_set>

#include "keygen.h"
#include "ykw.h"

namespace vf {

// ---------------------------------------------------------------- stamps
inline std::atomic<uint64_t> g_stamp{1}; // NOLINT
// every API call of the harnesses takes stamps, so the stamp counter doubles as the progress indicator
// watched by the stall watchdog in main.cpp
inline uint64_t stamp() { return g_stamp.fetch_add(1, std::memory_order_seq_cst); }
inline std::atomic<uint64_t> g_progress{0}; // NOLINT : bumped by harness loops that take no stamps
// set while the harness is inside init() / fin() / destroy(): a stall there is a lifecycle call that does not return (C16)
inline std::atomic<const char*> g_lifecycle_call{nullptr}; // NOLINT

// ---------------------------------------------------------------- values
// layout: [magic:4][len:4][id:8][keyhash:8][fill ...]; minimum 24 bytes.
constexpr uint32_t kValMagic = 0x59414b55;
constexpr std::size_t kValMin = 24;

inline std::string make_value(uint64_t id, std::string_view key, std::size_t len) {
    if (len < kValMin) { len = kValMin; }
    std::string v(len, '\0');
    uint32_t l32 = static_cast<uint32_t>(len);
    uint64_t kh = hash_bytes(key);
    memcpy(&v[0], &kValMagic, 4);
    memcpy(&v[4], &l32, 4);
    memcpy(&v[8], &id, 8);
    memcpy(&v[16], &kh, 8);
    for (std::size_t i = kValMin; i < len; ++i) { v[i] = static_cast<char>((id * 31 + i * 7) & 0xff); }
    return v;
}

enum class ValCheck { OK, NULLPTR, SHORT, BAD_MAGIC, LEN_MISMATCH, TORN_FILL, FOREIGN_KEY };
inline const char* valcheck_name(ValCheck c) {
    static const char* n[] = {"ok", "null-value", "short-length", "bad-magic", "length-mismatch", "torn-fill", "value-of-another-key"};
    return n[static_cast<int>(c)];
}

// validates (ptr,len) as one complete value written for `key`; returns its id through out_id
inline ValCheck check_value(const char* p, std::size_t len, std::string_view key, uint64_t& out_id) {
    out_id = 0;
    if (p == nullptr) { return ValCheck::NULLPTR; }
    if (len < kValMin) { return ValCheck::SHORT; }
    uint32_t magic = 0, l32 = 0;
    uint64_t id = 0, kh = 0;
    memcpy(&magic, p, 4);
    memcpy(&l32, p + 4, 4);
    memcpy(&id, p + 8, 8);
    memcpy(&kh, p + 16, 8);
    if (magic != kValMagic) { return ValCheck::BAD_MAGIC; }
    if (l32 != len) { return ValCheck::LEN_MISMATCH; }
    for (std::size_t i = kValMin; i < len; ++i) {
        if (p[i] != static_cast<char>((id * 31 + i * 7) & 0xff)) { return ValCheck::TORN_FILL; }
    }
    out_id = id;
    if (kh != hash_bytes(key)) { return ValCheck::FOREIGN_KEY; }
    return ValCheck::OK;
}

// cursor values come without a length: read it from the header (ASan guards the reads)
inline ValCheck check_value_nolen(const char* p, std::string_view key, uint64_t& out_id) {
    if (p == nullptr) {
        out_id = 0;
        return ValCheck::NULLPTR;
    }
    uint32_t l32 = 0;
    memcpy(&l32, p + 4, 4);
    uint32_t magic = 0;
    memcpy(&magic, p, 4);
    if (magic != kValMagic) {
        out_id = 0;
        return ValCheck::BAD_MAGIC;
    }
    return check_value(p, l32, key, out_id);
}

// ---------------------------------------------------------------- events
enum OpKind : uint8_t { OP_PUT = 0, OP_UPUT = 1, OP_GET = 2, OP_REMOVE = 3 };
enum OutClass : uint8_t { OUT_OK = 0, OUT_ABSENT = 1, OUT_UNIQUE = 2 }; // GET: OK/ABSENT, REMOVE: OK/ABSENT(not found), UPUT: OK/UNIQUE

struct Ev {
    OpKind kind;
    OutClass out;
    uint16_t thread;
    uint32_t key;   // index into the round's key table
    uint64_t arg;   // value id written (PUT/UPUT)
    uint64_t val;   // value id observed (GET OK)
    uint64_t inv, resp;
};

inline const char* opname(OpKind k) {
    static const char* n[] = {"put", "uput", "get", "remove"};
    return n[k];
}

inline std::string ev_json(const Ev& e) {
    JObj o;
    o.str("op", opname(e.kind)).num("t", e.thread).num("inv", e.inv).num("resp", e.resp);
    o.str("out", e.out == OUT_OK ? "OK" : (e.out == OUT_ABSENT ? "ABSENT" : "UNIQUE"));
    if (e.kind == OP_PUT || e.kind == OP_UPUT) { o.num("writes", e.arg); }
    if (e.kind == OP_GET && e.out == OUT_OK) { o.num("reads", e.val); }
    return o.done();
}

// ---------------------------------------------------------------- linearizability (per key)
// register-with-absence automaton; state 0 = absent, otherwise the value id.
struct LinResult {
    int verdict; // 1 linearizable, 0 not, -1 inconclusive (budget)
    uint64_t steps;
};

class LinChecker {
public:
    explicit LinChecker(uint64_t budget = 2000000) : budget_(budget) {}

    LinResult check(std::vector<Ev> evs, uint64_t init_state) {
        steps_ = 0;
        n_ = evs.size();
        if (n_ == 0) { return {1, 0}; }
        if (n_ > 63) { return {-1, 0}; }
        std::sort(evs.begin(), evs.end(), [](const Ev& a, const Ev& b) { return a.inv < b.inv; });
        evs_ = &evs;
        seen_.clear();
        bool ok = dfs(0, init_state);
        if (!ok && steps_ >= budget_) { return {-1, steps_}; }
        return {ok ? 1 : 0, steps_};
    }

private:
    uint64_t budget_;
    uint64_t steps_{0};
    std::size_t n_{0};
    const std::vector<Ev>* evs_{nullptr};
    struct PairHash {
        std::size_t operator()(const std::pair<uint64_t, uint64_t>& p) const { return mix64(p.first, p.second); }
    };
    std::unordered_set<std::pair<uint64_t, uint64_t>, PairHash> seen_;

    static bool apply(const Ev& e, uint64_t& state) {
        switch (e.kind) {
            case OP_PUT: state = e.arg; return true;
            case OP_UPUT:
                if (e.out == OUT_OK) {
                    if (state != 0) { return false; }
                    state = e.arg;
                    return true;
                }
                return state != 0;
            case OP_GET:
                if (e.out == OUT_OK) { return state == e.val && state != 0; }
                return state == 0;
            case OP_REMOVE:
                if (e.out == OUT_OK) {
                    if (state == 0) { return false; }
                    state = 0;
                    return true;
                }
                return state == 0;
        }
        return false;
    }

    bool dfs(uint64_t mask, uint64_t state) {
        if (mask == (n_ == 64 ? ~0ULL : ((1ULL << n_) - 1))) { return true; }
        if (++steps_ >= budget_) { return false; }
        if (!seen_.insert({mask, state}).second) { return false; }
        const auto& ev = *evs_;
        // minimal response among pending operations
        uint64_t min_resp = UINT64_MAX;
        for (std::size_t i = 0; i < n_; ++i) {
            if ((mask >> i & 1ULL) == 0 && ev[i].resp < min_resp) { min_resp = ev[i].resp; }
        }
        for (std::size_t i = 0; i < n_; ++i) {
            if ((mask >> i & 1ULL) != 0) { continue; }
            if (ev[i].inv > min_resp) { break; } // sorted by inv: later ops started after some pending op finished
            uint64_t s = state;
            if (apply(ev[i], s) && dfs(mask | (1ULL << i), s)) { return true; }
        }
        return false;
    }
};

// ---------------------------------------------------------------- delay profiles
inline ctl::Profile make_profile(Rng& r, int which) {
    using ctl::point;
    ctl::Profile p;
    switch (which % 7) {
        case 0: break; // none: maximum native interleaving rate
        case 1:        // remove window
            p.at(point::RM_CLEARED) = ctl::Rule{30000, 2, 3000};
            p.at(point::ATOMIC) = ctl::Rule{200, 2, 100};
            break;
        case 2: // sprinkle everywhere
            p.at(point::ATOMIC) = ctl::Rule{static_cast<uint32_t>(r.range(300, 3000)), 2, static_cast<uint32_t>(r.range(50, 2000))};
            p.at(point::LOCK_ACQ) = ctl::Rule{6000, 2, 2000};
            break;
        case 3: // yields: lets other threads run inside critical sections
            p.at(point::ATOMIC) = ctl::Rule{800, 1, 0};
            p.at(point::LOCK_ACQ) = ctl::Rule{10000, 1, 0};
            p.at(point::RM_CLEARED) = ctl::Rule{20000, 1, 0};
            break;
        case 4: // scanner windows
            p.at(point::SCAN_NEXT_LOADED) = ctl::Rule{20000, 2, 4000};
            p.at(point::SCAN_BEFORE_FINAL) = ctl::Rule{20000, 2, 4000};
            p.at(point::RM_CLEARED) = ctl::Rule{10000, 2, 2000};
            break;
        case 6: // stalls right after a lock was released: "unlock, then one more store" windows of writers
            p.at(point::LOCK_REL) = ctl::Rule{static_cast<uint32_t>(r.range(2000, 20000)), 3, static_cast<uint32_t>(r.range(20, 300))};
            p.at(point::ROOT_REL) = ctl::Rule{8000, 3, 100};
            break;
        default: // long holds with the lock
            p.at(point::LOCK_ACQ) = ctl::Rule{8000, 3, 30};
            p.at(point::RM_CLEARED) = ctl::Rule{8000, 3, 30};
            p.at(point::SCAN_NEXT_LOADED) = ctl::Rule{3000, 3, 30};
            break;
    }
    return p;
}

// ---------------------------------------------------------------- round runner
// runs fn(tid) on n threads released together; returns when all have finished (quiescent point).
// The threads are persistent (a pool that grows on demand): a round costs a few microseconds of
// synchronisation instead of n thread creations, so many more rounds fit into the same budget.
class RoundPool {
public:
    ~RoundPool() {
        quit_.store(true);
        state_.store(((state_.load() >> 8) + 1) << 8);
        for (auto& t : threads_) { t.join(); }
    }
    void run(int n, uint64_t seed, const std::function<void(int)>& fn) {
        while (static_cast<int>(threads_.size()) < n) {
            int id = static_cast<int>(threads_.size());
            threads_.emplace_back([this, id] { worker(id); });
        }
        g_progress.fetch_add(1, std::memory_order_relaxed);
        fn_ = &fn;
        seed_ = seed;
        arrived_.store(0);
        done_.store(0);
        // generation and number of participants are published in ONE word: a worker that is not part of
        // this round and wakes up late must never combine the generation of one round with the
        // participant count (and the function) of the next one - it would run that function twice
        uint64_t g = (state_.load(std::memory_order_relaxed) >> 8) + 1;
        state_.store((g << 8) | static_cast<uint64_t>(n), std::memory_order_release);
        uint64_t spins = 0;
        while (done_.load(std::memory_order_acquire) < n) {
            if (++spins < 4000) {
                _mm_pause();
            } else {
                std::this_thread::sleep_for(std::chrono::microseconds(20));
            }
        }
    }

private:
    void worker(int id) {
        alloc::set_role(alloc::ROLE_WORKER);
        uint64_t seen = 0;
        for (;;) {
            uint64_t spins = 0;
            uint64_t st = 0;
            while (((st = state_.load(std::memory_order_acquire)) >> 8) == seen) {
                if (++spins < 20000) {
                    _mm_pause();
                } else {
                    std::this_thread::sleep_for(std::chrono::microseconds(50));
                }
            }
            seen = st >> 8;
            if (quit_.load()) { return; }
            int n = static_cast<int>(st & 0xff);
            if (id >= n) { continue; }
            ctl::thread_begin(id, seed_ * 131 + id);
            arrived_.fetch_add(1);
            for (uint64_t w = 0; arrived_.load(std::memory_order_acquire) < n; ++w) {
                // on an oversubscribed machine a peer may not be running: do not burn the whole time slice
                if (w < 3000) {
                    _mm_pause();
                } else {
                    sched_yield();
                }
            }
            (*fn_)(id);
            ctl::thread_end();
            done_.fetch_add(1, std::memory_order_release);
        }
    }
    std::vector<std::thread> threads_;
    std::atomic<uint64_t> state_{0}; // (generation << 8) | participants
    std::atomic<int> arrived_{0}, done_{0};
    std::atomic<bool> quit_{false};
    const std::function<void(int)>* fn_{nullptr};
    uint64_t seed_{0};
};

inline void run_round(int n, uint64_t seed, const std::function<void(int)>& fn) {
    static RoundPool pool;
    pool.run(n, seed, fn);
}

} // namespace vf
