// C08 (concurrent half) and C09: pure structural churn by writers with
// interleaved key ownership plus optimistic readers; at every quiescent point
// the coherence oracle (walker + three-way API cross-check); during the
// batches the lock monitor (M7) watches for wait-for cycles, leaked locks and
// self-waits, and a sampler enforces bounded progress.
#include "conc_common.h"

using namespace vf;

namespace {

struct Family {
    std::vector<std::string> keys;
};

std::vector<Family> make_families() {
    std::vector<Family> f;
    // 0: flat 8-byte keys, two interior levels when all present
    {
        Family a;
        for (unsigned i = 0; i < 900; ++i) {
            char b[16];
            snprintf(b, sizeof b, "k%06u", i);
            a.keys.emplace_back(b);
        }
        f.push_back(a);
    }
    // 1: several sub-layers, each a small B+tree (layer roots split, collapse, retire)
    {
        Family a;
        for (unsigned g = 0; g < 12; ++g) {
            for (unsigned i = 0; i < 40; ++i) {
                char b[24];
                snprintf(b, sizeof b, "SUBTREE%u%03u", g % 10, i + (g / 10) * 500);
                a.keys.emplace_back(b);
            }
        }
        f.push_back(a);
    }
    // 2: three nested layers
    {
        Family a;
        for (unsigned i = 0; i < 120; ++i) {
            char b[40];
            snprintf(b, sizeof b, "NESTED01NESTED%02u%03u", i % 4, i);
            a.keys.emplace_back(b);
        }
        f.push_back(a);
    }
    for (auto& fam : f) {
        std::sort(fam.keys.begin(), fam.keys.end());
        fam.keys.erase(std::unique(fam.keys.begin(), fam.keys.end()), fam.keys.end());
    }
    return f;
}

} // namespace

int run_struct(const Args& a) {
    uint64_t seed = a.num("seed", 1);
    uint64_t batches = a.num("batches", 200);
    int max_threads = static_cast<int>(a.num("threads", 16));
    bool delays = a.num("delays", 1) != 0;
    uint64_t stall_limit_s = a.num("stall_s", 30);
    std::string prop = a.str("prop", "C08");
    Report rep(prop, "conc_struct", seed);
    rep.set_rule("batches of T<=16 writer threads with interleaved key ownership (key i belongs to thread i mod T, owners adjacent inside the same border nodes) insert and remove whole windows of three key families "
                 "(900 flat keys = two interior levels; 12 sub-layers of 40 keys; three nested layers) so that splits/unlinks of adjacent nodes, interior splits and collapses, root replacement and layer-root retirement "
                 "overlap; 2 optimistic readers (get/scan/iscan) run on the same nodes; after each batch (quiescent): walker invariants, leaf walk == forward scan == reversed backward cursor == point lookups == last completed "
                 "op per key; during batches the lock monitor records owner table, nesting, contended acquisitions, self-waits, and a sampler demands progress. "
                 "distinct_nontrivial = distinct tree shape signatures (depth>=2 or layers>=2) seen at quiescent points + distinct lock-nesting situations (held count x contended?) observed");
    yk::init();
    Rng r(seed);
    auto fams = make_families();
    std::string storage = "st";
    yk::create_storage(storage);
    std::vector<std::vector<uint64_t>> cur(fams.size()); // value id per key (0 absent)
    for (std::size_t f = 0; f < fams.size(); ++f) { cur[f].assign(fams[f].keys.size(), 0); }
    std::atomic<uint64_t> next_id{1};
    ctl::g_lockmon.store(true);
    std::atomic<bool> batch_running{false};
    std::atomic<bool> sampler_stop{false};
    std::atomic<uint64_t> progress{0};
    std::atomic<int> n_active{0};
    // ---- sampler: bounded progress + wait-for analysis
    std::thread sampler([&] {
        uint64_t last = 0;
        double last_change = now_s();
        while (!sampler_stop.load()) {
            std::this_thread::sleep_for(std::chrono::milliseconds(100));
            if (!batch_running.load()) {
                last_change = now_s();
                continue;
            }
            uint64_t p = progress.load();
            if (p != last) {
                last = p;
                last_change = now_s();
                continue;
            }
            if (now_s() - last_change < static_cast<double>(stall_limit_s)) { continue; }
            // no operation completed for stall_limit_s seconds: analyse
            std::vector<std::string> waits;
            bool cycle = false, leaked = false;
            int T = n_active.load();
            for (int t = 0; t < T; ++t) {
                uintptr_t on = ctl::g_tpub[t].spinning_on.load();
                if (on == 0) { continue; }
                int owner = ctl::owner_of(on);
                waits.push_back(JObj().num("thread", t).num("waits_on_lock_owned_by", owner < 0 ? 9999 : owner).num("held", ctl::g_tpub[t].held.load()).done());
                if (owner < 0) { leaked = true; }
                // follow the chain
                int cur_t = owner;
                for (int hop = 0; hop < T + 1 && cur_t >= 0; ++hop) {
                    if (cur_t == t) {
                        cycle = true;
                        break;
                    }
                    uintptr_t o2 = ctl::g_tpub[cur_t].spinning_on.load();
                    if (o2 == 0) { break; }
                    cur_t = ctl::owner_of(o2);
                }
            }
            JObj d;
            d.raw("waiting_threads", jarr(waits)).num("threads", T).num("stall_seconds", stall_limit_s);
            rep.violation(cycle ? "progress:wait-for-cycle" : (leaked ? "progress:wait-on-lock-nobody-holds" : "progress:no-operation-completed"),
                          "no API call completed within the stall limit while workers were inside calls", d.done());
            rep.finish();
            fflush(stdout);
            _exit(0);
        }
    });
    alloc::Counters c_prev = alloc::counters();
    uint64_t nest_seen[9][2] = {};
    for (uint64_t b = 0; b < batches && rep.violations() < 10; ++b) {
        static const int tcs[] = {2, 4, 8, 12, 16};
        int T = std::min(max_threads, tcs[r.below(5)]);
        int R = 2;
        std::size_t f = r.below(fams.size());
        const auto& keys = fams[f].keys;
        // window of keys the writers work on
        std::size_t wlen = std::min<std::size_t>(keys.size(), r.range(40, 400));
        std::size_t wlo = r.below(keys.size() - wlen + 1);
        ctl::Profile prof = make_profile(r, delays ? static_cast<int>(r.below(7)) : 0);
        ctl::g_profile.store(delays ? &prof : nullptr);
        uint64_t bseed = seed * 92821 + b;
        std::atomic<int> writers_left{T};
        n_active.store(T + R);
        batch_running.store(true);
        auto& st = cur[f];
        run_round(T + R, bseed, [&](int tid) {
            Rng tr(bseed * 53 + tid);
            Session ses;
            ses.reenter();
            if (tid >= T) {
                // optimistic reader
                while (writers_left.load() > 0) {
                    const std::string& k = keys[wlo + tr.below(wlen)];
                    unsigned x = static_cast<unsigned>(tr.below(3));
                    ctl::g_tpub[tid].in_api.store(1);
                    if (x == 0) {
                        std::pair<char*, std::size_t> o;
                        yget(storage, k, o);
                    } else if (x == 1) {
                        std::vector<ScanTuple> tl;
                        yk::scan<char>(storage, k, scan_endpoint::INCLUSIVE, "", scan_endpoint::INF, tl, nullptr, 20, false);
                    } else {
                        std::vector<CursorItem> items;
                        cursor_collect(storage, k, scan_endpoint::INCLUSIVE, "", scan_endpoint::INF, tr.chance(1, 2), items, 20);
                    }
                    ctl::g_tpub[tid].in_api.store(0);
                    progress.fetch_add(1, std::memory_order_relaxed);
                    if (tr.chance(1, 8)) { ses.reenter(); }
                }
                ses.leave();
                return;
            }
            // writer: owns window keys with index % T == tid
            std::vector<std::size_t> mine;
            for (std::size_t i = wlo; i < wlo + wlen; ++i) {
                if (static_cast<int>(i % T) == tid) { mine.push_back(i); }
            }
            auto put_key = [&](std::size_t i) {
                uint64_t id = next_id.fetch_add(1);
                ctl::g_tpub[tid].in_api.store(1);
                status s = yput(ses.tok, storage, keys[i], make_value(id, keys[i], 24 + (id % 40)));
                ctl::g_tpub[tid].in_api.store(0);
                if (s != status::OK) { rep.violation("struct:put-status", "put failed", JObj().str("got", vf::st(s)).done()); }
                st[i] = id;
                progress.fetch_add(1, std::memory_order_relaxed);
                g_progress.fetch_add(1, std::memory_order_relaxed);
            };
            auto rm_key = [&](std::size_t i) {
                ctl::g_tpub[tid].in_api.store(1);
                status s = yk::remove(ses.tok, storage, keys[i]);
                ctl::g_tpub[tid].in_api.store(0);
                bool present = st[i] != 0;
                if ((present && s != status::OK) || (!present && s == status::OK)) {
                    rep.violation("struct:remove-status", "remove status contradicts the owner's own history of the key", JObj().str("got", vf::st(s)).boolean("present", present).str("key", keys[i]).done());
                }
                st[i] = 0;
                progress.fetch_add(1, std::memory_order_relaxed);
            };
            std::size_t phases = tr.range(1, 3);
            for (std::size_t ph = 0; ph < phases; ++ph) {
                switch (tr.below(4)) {
                    case 0:
                        for (auto i : mine) {
                            if (st[i] == 0) { put_key(i); }
                        }
                        break;
                    case 1:
                        for (auto i : mine) {
                            if (st[i] != 0) { rm_key(i); }
                        }
                        break;
                    case 2:
                        for (auto it = mine.rbegin(); it != mine.rend(); ++it) {
                            if (st[*it] != 0) {
                                rm_key(*it);
                            } else {
                                put_key(*it);
                            }
                        }
                        break;
                    default:
                        for (std::size_t n = 0; n < mine.size(); ++n) {
                            std::size_t i = mine[tr.below(mine.size())];
                            if (tr.chance(1, 2)) {
                                put_key(i);
                            } else {
                                rm_key(i);
                            }
                        }
                        break;
                }
                if (tr.chance(1, 2)) { ses.reenter(); }
            }
            ses.leave();
            writers_left.fetch_sub(1);
        });
        batch_running.store(false);
        ctl::g_profile.store(nullptr);
        rep.eval();
        rep.count("batches");
        // ---- quiescent point
        Model model;
        for (std::size_t ff = 0; ff < fams.size(); ++ff) {
            for (std::size_t i = 0; i < fams[ff].keys.size(); ++i) {
                if (cur[ff][i] != 0) { model[fams[ff].keys[i]] = make_value(cur[ff][i], fams[ff].keys[i], 24 + (cur[ff][i] % 40)); }
            }
        }
        WalkResult wr;
        coherence_check(rep, storage, model, true, &wr);
        drain_alloc_problems(rep);
        rep.count("quiescent_points");
        if (wr.max_depth >= 2 || wr.n_layers >= 2) { rep.distinct(wr.shape_signature()); }
        alloc::Counters c_now = alloc::counters();
        rep.count("nodes_allocated", c_now.node_allocs - c_prev.node_allocs);
        rep.count("nodes_released", c_now.node_frees - c_prev.node_frees);
        c_prev = c_now;
        if (b < 2) { rep.sample(JObj().num("batch", b).num("threads", T).num("family", f).num("window_keys", wlen).raw("shape_after", wr.shape_json()).done()); }
        uint64_t mn = ctl::g_max_nest.load();
        nest_seen[std::min<uint64_t>(mn, 8)][ctl::g_lock_contended.load() != 0 ? 1 : 0] = 1;
    }
    sampler_stop.store(true);
    sampler.join();
    ctl::g_lockmon.store(false);
    rep.count("lock_acquisitions", ctl::g_lock_acq.load());
    rep.count("root_lock_acquisitions", ctl::g_root_acq.load());
    rep.count("contended_lock_waits", ctl::g_lock_contended.load());
    rep.count("contended_root_lock_waits", ctl::g_root_contended.load());
    rep.count("max_locks_held_by_one_thread", ctl::g_max_nest.load());
    rep.count("acquisitions_while_holding_1", ctl::g_nest2.load());
    rep.count("acquisitions_while_holding_2plus", ctl::g_nest3.load());
    rep.count("unlock_of_lock_created_locked", ctl::g_release_unowned.load());
    for (int i = 0; i < 9; ++i) {
        for (int j = 0; j < 2; ++j) {
            if (nest_seen[i][j] != 0U) { rep.distinct(mix64(0x10c, i * 2 + j)); }
        }
    }
    if (ctl::g_self_wait.load() != 0) {
        rep.violation("progress:thread-waits-on-lock-it-holds", "a thread spun on a lock / version word that it holds itself", JObj().num("count", ctl::g_self_wait.load()).done());
    }
    rep.note("hook_counts", ctl::counts_json());
    yk::delete_storage(storage);
    yk::fin();
    drain_alloc_problems(rep);
    if (alloc::counters().live_blocks != 0) { rep.violation("struct:blocks-live-after-fin", "blocks live after fin", "{}"); }
    if (rep.get("nodes_released") == 0) { rep.inconclusive("no node was ever unlinked"); }
    return rep.finish();
}
