// C11: everything allocated is released at the latest by fin(), for many
// kinds of operation histories and repeated init/fin cycles in one process.
#include "conc_common.h"

using namespace vf;

namespace {

struct Ctx {
    Report& rep;
    Rng& r;
    std::atomic<uint64_t> next_id{1};
    uint64_t lost_root_races{0}, failed_unique{0}, cursors_early{0}, create_races{0};
};

void h_overwrite(Ctx& c) {
    yk::create_storage("ow");
    run_round(4, c.r.next(), [&](int tid) {
        Rng tr(tid * 77 + 1);
        Session s;
        s.reenter();
        for (int i = 0; i < 400; ++i) {
            std::string k = "o" + std::to_string(tr.below(20));
            yput(s.tok, "ow", k, make_value(c.next_id.fetch_add(1), k, tr.range(24, 400)), false, tr.chance(1, 2) ? 8 : 64);
            if (i % 50 == 0) { s.reenter(); }
            if (i % 40 == 7) {
                // a key private to this thread alternates between heap and inline (pointer-typed) values
                std::string mk = "mix" + std::to_string(tid);
                yput(s.tok, "ow", mk, make_value(c.next_id.fetch_add(1), mk, 80));
                uintptr_t iv = 0x1000 + static_cast<uintptr_t>(i);
                yk::put<uintptr_t>(s.tok, "ow", mk, &iv);
                if (i % 80 == 7) { yput(s.tok, "ow", mk, make_value(c.next_id.fetch_add(1), mk, 40)); }
            }
        }
        s.leave();
    });
}

void h_unlink(Ctx& c) {
    yk::create_storage("ul");
    run_round(4, c.r.next(), [&](int tid) {
        Session s;
        s.reenter();
        std::vector<std::string> keys;
        for (int i = 0; i < 150; ++i) {
            char b[40];
            snprintf(b, sizeof b, tid % 2 == 0 ? "u%02d%04d" : "LAYERED%d%04dtail", tid, i);
            keys.emplace_back(b);
        }
        for (auto& k : keys) { yput(s.tok, "ul", k, make_value(c.next_id.fetch_add(1), k, 24)); }
        s.reenter();
        for (auto& k : keys) { yk::remove(s.tok, "ul", k); }
        s.leave();
    });
}

void h_rootrace(Ctx& c) {
    // the root == nullptr path of put(): N threads race to create the root of an empty tree
    for (int rep_i = 0; rep_i < 20; ++rep_i) {
        auto* ti = new yk::tree_instance();
        alloc::Counters c0 = alloc::counters();
        int N = 8;
        std::vector<status> out(N);
        run_round(N, c.r.next(), [&](int tid) {
            Session s;
            s.reenter();
            // long keys: the speculative root carries a chain of next-layer borders which the loser must free too
            std::string k = (rep_i % 2 == 0 ? std::string("root") : std::string("rootrace-key-with-several-layers-")) + std::to_string(tid);
            std::string v = make_value(c.next_id.fetch_add(1), k, 100);
            out[tid] = yk::put<char>(s.tok, ti, k, v.data(), false, v.size());
            s.leave();
        });
        alloc::Counters c1 = alloc::counters();
        // short keys: 8 keys fit one border, every extra border allocated was a lost race
        if (rep_i % 2 == 0 && c1.node_allocs - c0.node_allocs > 1) { c.lost_root_races += c1.node_allocs - c0.node_allocs - 1; }
        for (auto s : out) {
            if (s != status::OK) { c.rep.violation("leak:root-race-put-status", "put into an empty tree failed", JObj().str("got", st(s)).done()); }
        }
        yk::base_node* root = ti->load_root_ptr();
        if (root != nullptr) {
            root->destroy();
            delete root; // NOLINT
        }
        delete ti; // NOLINT
    }
}

void h_createrace(Ctx& c) {
    for (int i = 0; i < 20; ++i) {
        std::string nm = (i % 2 == 0 ? std::string("race") : std::string("race-storage-name-longer-than-one-slice-")) + std::to_string(i % 3);
        if (i % 5 == 4) {
            // empty namespace with a null root: the creators race on the root pointer itself
            yk::destroy();
        }
        run_round(6, c.r.next(), [&](int) { yk::create_storage(nm); });
        ++c.create_races;
        if (i % 2 == 0) { yk::delete_storage(nm); }
    }
}

void h_uniquefail(Ctx& c) {
    yk::create_storage("uq");
    Session s;
    s.reenter();
    for (int i = 0; i < 200; ++i) {
        std::string k = "q" + std::to_string(i % 10);
        status st_ = yput(s.tok, "uq", k, make_value(c.next_id.fetch_add(1), k, 64), true);
        if (st_ == status::WARN_UNIQUE_RESTRICTION) { ++c.failed_unique; }
    }
    s.leave();
}

void h_storages(Ctx& c) {
    Session s;
    for (int i = 0; i < 15; ++i) {
        std::string nm = "tmp" + std::to_string(i % 4);
        yk::create_storage(nm);
        s.reenter();
        for (int j = 0; j < 60; ++j) {
            std::string k = (j % 2 != 0 ? std::string(8, 'Z') : std::string()) + "k" + std::to_string(j);
            yput(s.tok, nm, k, make_value(c.next_id.fetch_add(1), k, 30));
        }
        s.leave();
        if (i % 3 != 2) { yk::delete_storage(nm); }
    }
}

void h_cursors(Ctx& c) {
    yk::create_storage("cur");
    Session s;
    s.reenter();
    for (int j = 0; j < 100; ++j) {
        std::string k = (j % 3 == 0 ? std::string(8, 'C') : std::string()) + "c" + std::to_string(j);
        yput(s.tok, "cur", k, make_value(c.next_id.fetch_add(1), k, 30));
    }
    for (int i = 0; i < 60; ++i) {
        yk::iscan_context* ctx = nullptr;
        void* v = nullptr;
        alloc::watch_window(true);
        status st_ = yk::iscan_open("cur", "", scan_endpoint::INF, "", scan_endpoint::INF, i % 2 == 0, i % 3 == 0, ctx, v);
        alloc::watch_window(false);
        int steps = i % 5; // 0 = never advanced
        while (st_ == status::OK && steps-- > 0) { st_ = yk::iscan_next(ctx, v); }
        if (ctx != nullptr) {
            yk::iscan_close(ctx);
            ++c.cursors_early;
        }
        // rejected opens must not allocate a context
        alloc::watch_window(true);
        yk::iscan_open("cur", "b", scan_endpoint::INCLUSIVE, "a", scan_endpoint::INCLUSIVE, false, false, ctx, v);
        yk::iscan_open("no-such", "", scan_endpoint::INF, "", scan_endpoint::INF, false, false, ctx, v);
        alloc::watch_window(false);
    }
    s.leave();
}

} // namespace

int run_leak(const Args& a) {
    uint64_t seed = a.num("seed", 1);
    uint64_t cycles = a.num("cycles", 3);
    Report rep(a.str("prop", "C11"), "conc_leak", seed);
    rep.set_rule("per process: a baseline init();fin(); then N init..fin cycles, each running a random subset/order of histories: concurrent overwrites; insert-all/remove-all with borders unlinked, interiors collapsed, layer roots retired; "
                 "N-thread root-creation races on an empty tree (losers free their speculative border+value); concurrent create_storage of one name; failed unique inserts; storages created/filled/deleted repeatedly; "
                 "destroy() mid-cycle; cursors closed early / never advanced / rejected opens; sessions left open at fin(). Oracle: after each fin() the allocation registry holds 0 live library blocks (aligned operator new family), "
                 "0 live cursor contexts, no double free / unknown free / size-alignment mismatch; LeakSanitizer at exit in the asan build. distinct_nontrivial = cycles by (set of histories run, release paths that freed memory)");
    Rng r(seed);
    Ctx c{rep, r};
    // baseline: operation-free cycle
    yk::init();
    yk::fin();
    alloc::Counters base = alloc::counters();
    if (base.live_blocks != 0) { rep.violation("leak:baseline-not-zero", "blocks live after an operation-free init/fin", JObj().num("live", base.live_blocks).done()); }
    for (uint64_t cy = 0; cy < cycles; ++cy) {
        alloc::Counters c0 = alloc::counters();
        yk::init();
        std::vector<int> hs = {0, 1, 2, 3, 4, 5, 6};
        for (std::size_t i = hs.size(); i > 1; --i) { std::swap(hs[i - 1], hs[r.below(i)]); }
        std::size_t nh = r.range(3, 7);
        uint64_t hmask = 0;
        bool destroyed = false;
        for (std::size_t i = 0; i < nh; ++i) {
            hmask |= 1ULL << hs[i];
            switch (hs[i]) {
                case 0: h_overwrite(c); break;
                case 1: h_unlink(c); break;
                case 2: h_rootrace(c); break;
                case 3: h_createrace(c); break;
                case 4: h_uniquefail(c); break;
                case 5: h_storages(c); break;
                default: h_cursors(c); break;
            }
            if (!destroyed && r.chance(1, 6)) {
                status d = yk::destroy();
                destroyed = true;
                rep.count("destroy_mid_cycle");
                if (d != status::OK_DESTROY_ALL && d != status::OK_ROOT_IS_NULL) { rep.violation("leak:destroy-status", "destroy returned " + st(d), "{}"); }
            }
        }
        // a session left open at fin()
        Session open_ses;
        if (r.chance(1, 2)) {
            open_ses.reenter();
            rep.count("cycles_with_session_open_at_fin");
            if (yk::find_storage("ow") == status::OK) { yput(open_ses.tok, "ow", "left-open", make_value(c.next_id.fetch_add(1), "left-open", 64)); }
        }
        alloc::Counters c_mid = alloc::counters();
        yk::fin();
        alloc::Counters c1 = alloc::counters();
        rep.eval();
        rep.count("cycles");
        uint64_t by_gc = c_mid.frees_by_lib - c0.frees_by_lib;
        uint64_t by_fin = (c1.frees - c_mid.frees);
        uint64_t by_worker = c_mid.frees_by_worker - c0.frees_by_worker + (c_mid.frees_by_main - c0.frees_by_main);
        rep.count("released_by_gc_thread_while_running", by_gc);
        rep.count("released_inside_fin", by_fin);
        rep.count("released_by_calling_threads", by_worker);
        rep.count("blocks_allocated", c1.allocs - c0.allocs);
        rep.maxc("peak_live_blocks", c1.peak_live_blocks);
        rep.distinct(mix64(hmask, (by_gc != 0 ? 1 : 0) + (by_fin != 0 ? 2 : 0) + (by_worker != 0 ? 4 : 0) + (destroyed ? 8 : 0)));
        if (c1.live_blocks != 0) {
            std::vector<std::string> blocks;
            for (auto& b : alloc::live_blocks_snapshot(8)) { blocks.push_back(JObj().num("size", b.size).num("align", b.align).boolean("node", b.is_node).done()); }
            JObj d;
            d.num("live_blocks", c1.live_blocks).num("live_bytes", c1.live_bytes).num("cycle", cy).num("histories_mask", hmask).boolean("destroy_mid_cycle", destroyed).raw("some_live_blocks", jarr(blocks));
            rep.violation("leak:blocks-live-after-fin", "library-owned blocks still allocated after fin()", d.done());
        }
        if (c1.watched_live != 0) { rep.violation("leak:cursor-context-live-after-close", "iscan_context objects still allocated after every cursor was closed", JObj().num("live", c1.watched_live).done()); }
        for (auto& p : alloc::take_problems()) { rep.violation("leak:" + p.key, "allocation registry", p.detail); }
        if (cy == 0) { rep.sample(JObj().num("cycle", cy).num("histories_mask", hmask).num("allocated", c1.allocs - c0.allocs).num("freed_by_gc_thread", by_gc).num("freed_in_fin", by_fin).num("live_after_fin", c1.live_blocks).done()); }
    }
    rep.count("lost_root_creation_races", c.lost_root_races);
    rep.count("failed_unique_inserts", c.failed_unique);
    rep.count("cursors_closed_early_or_unadvanced", c.cursors_early);
    rep.count("create_storage_races", c.create_races);
    return rep.finish();
}
