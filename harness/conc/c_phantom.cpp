// C06 (and the node-version clause of C10): a scan/cursor that collects node
// versions races insert-only writers. At the quiescent end of the round:
// all collected pairs still fresh  ==>  the scan saw exactly the keys present.
#include "conc_common.h"

using namespace vf;

int run_phantom(const Args& a) {
    uint64_t seed = a.num("seed", 1);
    uint64_t rounds = a.num("rounds", 1000);
    bool use_cursor = a.num("cursor", 0) != 0;
    bool delays = a.num("delays", 1) != 0;
    Report rep(a.str("prop", "C06"), use_cursor ? "conc_phantom_iscan" : "conc_phantom_scan", seed);
    rep.set_rule("per round: a multi-node tree (single layer, 60..400 keys, or multi-layer), one reader (scan with node_version_vec / cursor with a collecting callback) and 1..3 inserters doing 1..3 inserts each of absent keys "
                 "placed into the first border of the interval, the middle, the last border, and into full borders (split while the reader is between recording the next pointer and validating the current node; delay injection "
                 "at SCAN_NEXT_LOADED / SCAN_BEFORE_FINAL); after all calls completed the reader re-reads every recorded (version,node) pair; all fresh => key set of the result must equal the keys present in the interval. "
                 "Rounds are classified fresh-and-complete / stale / no-overlap. distinct_nontrivial = rounds with an insert overlapping the read, by (class, insert position class, split?, scenario, api)");
    yk::init();
    Rng r(seed);
    std::atomic<uint64_t> next_id{1};
    Session main_ses;
    uint64_t rounds_overlap = 0;
    for (uint64_t rd = 0; rd < rounds && rep.violations() < 10; ++rd) {
        // ---- build a fresh tree (quiescent)
        std::string storage = "ph";
        yk::create_storage(storage);
        main_ses.reenter();
        bool layered = rd % 3 == 2;
        std::vector<std::string> present, absent;
        std::size_t nkeys = r.range(60, 400);
        for (std::size_t i = 0; i < nkeys; ++i) {
            char b[32];
            if (layered) {
                snprintf(b, sizeof b, "LAYER%03zu%03zu", i / 30, (i % 30) * 4);
            } else {
                snprintf(b, sizeof b, "p%05zu", i * 4);
            }
            present.emplace_back(b);
            for (int j = 1; j < 4; ++j) {
                if (layered) {
                    snprintf(b, sizeof b, "LAYER%03zu%03zu", i / 30, (i % 30) * 4 + j);
                } else {
                    snprintf(b, sizeof b, "p%05zu", i * 4 + j);
                }
                absent.emplace_back(b);
            }
        }
        std::sort(present.begin(), present.end());
        for (auto& k : present) { yput(main_ses.tok, storage, k, make_value(next_id.fetch_add(1), k, 24)); }
        // remove a part again: first keys of borders vanish, so that a border's key range starts before its
        // first key (absent in-range keys can be routed into a border that holds no in-range key)
        if (r.chance(2, 3)) {
            std::vector<std::string> kept;
            unsigned pct = static_cast<unsigned>(r.range(10, 45));
            for (auto& k : present) {
                if (r.chance(pct, 100) && kept.size() + 8 < present.size()) {
                    yk::remove(main_ses.tok, storage, k);
                    absent.push_back(k);
                } else {
                    kept.push_back(k);
                }
            }
            if (kept.size() >= 8) { present.swap(kept); }
        }
        main_ses.leave();
        alloc::Counters c0 = alloc::counters();
        // ---- interval and inserts
        std::size_t lo = r.below(present.size());
        std::size_t hi = r.range(lo, present.size() - 1);
        bool full = r.chance(1, 4);
        bool short_scan = !full && r.chance(1, 2); // few borders: the end-of-scan window is a large part of the scan
        if (short_scan) { hi = std::min(present.size() - 1, lo + r.below(24)); }
        if (full) {
            lo = 0;
            hi = present.size() - 1;
        }
        std::string lk = present[lo], rk = present[hi];
        // the right endpoint is often an absent key (the scan then ends at the first key right of it)
        if (!full && r.chance(1, 2)) {
            std::vector<std::string> gap;
            for (auto& k : absent) {
                if (k > lk && (hi + 1 >= present.size() || k < present[hi + 1]) && k > rk) { gap.push_back(k); }
            }
            if (!gap.empty()) { rk = gap[r.below(gap.size())]; }
        }
        int W = static_cast<int>(r.range(1, 3));
        std::vector<std::vector<std::string>> ins(W);
        std::vector<std::string> all_ins;
        const char* pos_class = "";
        {
            // candidates inside the interval
            std::vector<std::string> cand;
            for (auto& k : absent) {
                if (k > lk && k <= rk) { cand.push_back(k); }
            }
            std::sort(cand.begin(), cand.end());
            if (cand.empty()) {
                yk::delete_storage(storage);
                continue;
            }
            unsigned where = static_cast<unsigned>(r.below(4));
            for (int w = 0; w < W; ++w) {
                std::size_t cnt = r.range(1, 3);
                for (std::size_t c = 0; c < cnt; ++c) {
                    std::size_t idx;
                    switch (where) {
                        case 0: idx = r.below(std::min<std::size_t>(cand.size(), 12)); pos_class = "first-border"; break;
                        case 1: idx = cand.size() / 2 + r.below(std::min<std::size_t>(cand.size() - cand.size() / 2, 12)); pos_class = "middle"; break;
                        case 2: idx = cand.size() - 1 - r.below(std::min<std::size_t>(cand.size(), 12)); pos_class = "last-border"; break;
                        default: idx = r.below(cand.size()); pos_class = "anywhere"; break;
                    }
                    if (std::find(all_ins.begin(), all_ins.end(), cand[idx]) == all_ins.end()) {
                        ins[w].push_back(cand[idx]);
                        all_ins.push_back(cand[idx]);
                    }
                }
            }
        }
        ctl::Profile prof;
        if (delays) {
            prof.at(ctl::point::SCAN_NEXT_LOADED) = ctl::Rule{static_cast<uint32_t>(r.range(2000, 40000)), 2, static_cast<uint32_t>(r.range(200, 6000))};
            prof.at(ctl::point::SCAN_BEFORE_FINAL) = ctl::Rule{static_cast<uint32_t>(r.range(2000, 40000)), 2, static_cast<uint32_t>(r.range(200, 6000))};
            if (r.chance(1, 2)) { prof.at(ctl::point::LOCK_ACQ) = ctl::Rule{8000, 2, 3000}; }
            if (r.chance(1, 2)) { prof.at(ctl::point::ATOMIC) = ctl::Rule{static_cast<uint32_t>(r.range(300, 4000)), 2, static_cast<uint32_t>(r.range(100, 3000))}; }
            if (short_scan && r.chance(2, 3)) {
                static const uint32_t pr[] = {4000, 12000, 25000};
                prof.at(ctl::point::ATOMIC) = ctl::Rule{pr[r.below(3)], 2, static_cast<uint32_t>(r.range(200, 4000))};
            }
            ctl::g_profile.store(&prof);
        }
        std::atomic<int> writers_left{W};
        std::vector<std::pair<uint64_t, uint64_t>> ins_stamp(W, {UINT64_MAX, 0});
        uint64_t rinv = 0, rresp = 0;
        std::vector<std::string> result_keys;
        NvVec nv;
        bool all_fresh = true;
        std::string reader_problem;
        bool r2l = use_cursor && r.chance(1, 2);
        uint64_t round_seed = seed * 104729 + rd;
        run_round(W + 1, round_seed, [&](int tid) {
            Rng tr(round_seed * 17 + tid);
            Session ses;
            ses.reenter();
            if (tid < W) {
                // start a little after the reader so that inserts land behind / under / ahead of it
                for (uint64_t k = tr.below(short_scan ? 30000 : 3000); k > 0; --k) { _mm_pause(); }
                for (auto& k : ins[tid]) {
                    uint64_t i0 = stamp();
                    status s = yput(ses.tok, storage, k, make_value(next_id.fetch_add(1), k, 24), true);
                    uint64_t i1 = stamp();
                    if (s != status::OK) { rep.violation("phantom:insert-status", "unique insert of an absent key failed", JObj().str("got", st(s)).done()); }
                    ins_stamp[tid].first = std::min(ins_stamp[tid].first, i0);
                    ins_stamp[tid].second = std::max(ins_stamp[tid].second, i1);
                    for (uint64_t p = tr.below(2000); p > 0; --p) { _mm_pause(); }
                }
                ses.leave();
                writers_left.fetch_sub(1);
                return;
            }
            // reader
            if (!use_cursor) {
                std::vector<ScanTuple> tl;
                rinv = stamp();
                status s = yk::scan<char>(storage, lk, scan_endpoint::INCLUSIVE, rk, scan_endpoint::INCLUSIVE, tl, &nv, 0, false);
                rresp = stamp();
                if (s != status::OK) { reader_problem = "status " + st(s); }
                for (auto& t : tl) { result_keys.push_back(std::get<0>(t)); }
            } else {
                std::function<bool(yk::node_version64*, yk::node_version64_body)> cb = [&nv](yk::node_version64* p, yk::node_version64_body b) {
                    nv.emplace_back(b, p);
                    return false;
                };
                std::vector<CursorItem> items;
                rinv = stamp();
                status s = cursor_collect(storage, lk, scan_endpoint::INCLUSIVE, rk, scan_endpoint::INCLUSIVE, r2l, items, 0, &cb);
                rresp = stamp();
                if (s != status::OK_SCAN_END) { reader_problem = "status " + st(s); }
                for (auto& it : items) { result_keys.push_back(it.key); }
                if (r2l) { std::reverse(result_keys.begin(), result_keys.end()); }
            }
            // keep the session open (protects the recorded nodes) until every insert has completed
            while (writers_left.load() > 0) { _mm_pause(); }
            for (auto& [body, ptr] : nv) {
                if (ptr->get_stable_version() != body) { all_fresh = false; }
            }
            ses.leave();
        });
        ctl::g_profile.store(nullptr);
        rep.eval();
        rep.count("rounds");
        alloc::Counters c1 = alloc::counters();
        bool split = c1.node_allocs != c0.node_allocs;
        // ---- classify
        bool overlap = false;
        for (auto& [i0, i1] : ins_stamp) {
            if (i0 != UINT64_MAX && i0 < rresp && i1 > rinv) { overlap = true; }
        }
        std::vector<std::string> want = present;
        want.erase(std::remove_if(want.begin(), want.end(), [&](const std::string& k) { return k < lk || k > rk; }), want.end());
        for (auto& k : all_ins) { want.push_back(k); }
        std::sort(want.begin(), want.end());
        bool complete = result_keys == want;
        auto describe = [&]() {
            JObj d;
            d.str("api", use_cursor ? (r2l ? "iscan-backward" : "iscan-forward") : "scan").boolean("layered", layered).num("keys", present.size()).str("l_key", lk).str("r_key", rk).num("inserters", W).num("inserts", all_ins.size());
            d.boolean("short_scan", short_scan).str("insert_position", pos_class).boolean("split_during_round", split).num("result_keys", result_keys.size()).num("keys_present_after", want.size()).num("set_size", nv.size()).num("round", rd);
            return d;
        };
        bool ordered = true;
        for (std::size_t i = 0; i < result_keys.size(); ++i) {
            if (i > 0 && result_keys[i] <= result_keys[i - 1]) { ordered = false; }
            if (!std::binary_search(want.begin(), want.end(), result_keys[i])) { ordered = false; }
        }
        if (!reader_problem.empty()) {
            rep.violation("phantom:reader-status", "reader failed: " + reader_problem, describe().done());
        } else if (!ordered) {
            // independent of the freshness of the version set: duplicates, disorder, keys outside the interval
            rep.violation(std::string("phantom:") + (use_cursor ? "iscan" : "scan") + ":result-not-ascending-subset-of-interval",
                          "the result contains a key twice, out of order, or a key that was never in the interval", describe().done());
        } else if (nv.empty()) {
            rep.violation("phantom:empty-version-set", "reader collected no node version", describe().done());
        } else if (all_fresh && !complete) {
            std::string missing;
            for (auto& k : want) {
                if (std::find(result_keys.begin(), result_keys.end(), k) == result_keys.end()) {
                    missing = k;
                    break;
                }
            }
            rep.violation(std::string("phantom:") + (use_cursor ? "iscan" : "scan") + ":insert-missed-with-fresh-version-set",
                          "every collected (version,node) pair is unchanged after the round, yet the result lacks a key that was inserted into the interval", describe().str("first_missing", missing).done());
        }
        const char* cls = !overlap ? "no-overlap" : (all_fresh ? "fresh-and-complete" : "stale");
        rep.count(std::string("rounds_") + cls);
        if (overlap) {
            ++rounds_overlap;
            rep.distinct(mix64(hash_bytes(cls), mix64(hash_bytes(pos_class), mix64(split ? 1 : 0, mix64(layered ? 1 : 0, use_cursor ? (r2l ? 2 : 1) : 0)))));
            if (split) { rep.count("overlap_rounds_with_split"); }
            rep.count(std::string("overlap_pos_") + pos_class);
            if (rep.get("samples_taken") < 4) {
                rep.count("samples_taken");
                rep.sample(describe().str("class", cls).num("read_inv", rinv).num("read_resp", rresp).done());
            }
        }
        // quiescent: structure + content
        Model model;
        main_ses.reenter();
        for (auto& k : present) {
            std::pair<char*, std::size_t> o;
            if (yget(storage, k, o) == status::OK) { model[k] = std::string(o.first, o.second); }
        }
        for (auto& k : all_ins) {
            std::pair<char*, std::size_t> o;
            if (yget(storage, k, o) == status::OK) {
                model[k] = std::string(o.first, o.second);
            } else {
                rep.violation("phantom:inserted-key-lost", "a key whose insert returned OK is not readable at quiescence", JObj().str("key", k).done());
            }
        }
        main_ses.leave();
        coherence_check(rep, storage, model, true, nullptr);
        drain_alloc_problems(rep);
        yk::delete_storage(storage);
    }
    rep.note("hook_counts", ctl::counts_json());
    rep.note("delays_injected", ctl::delays_json());
    yk::fin();
    drain_alloc_problems(rep);
    if (rounds_overlap < 5) { rep.inconclusive("fewer than 5 rounds in which an insert overlapped the read"); }
    return rep.finish();
}

// ---------------------------------------------------------------------------------------------------
// C06 micro-races: two persistent threads (one reader, one inserter) meet at a spin barrier hundreds of
// thousands of times on a small tree, so that windows of a few instructions (between the reader's last
// validation and its logging of a node, between recording the next pointer and the final check) are hit.
int run_phantom_micro(const Args& a) {
    uint64_t seed = a.num("seed", 1);
    uint64_t races = a.num("races", 200000);
    bool use_cursor = a.num("cursor", 0) != 0;
    bool post_only = a.str("oracle", "all") == "post";
    Report rep(a.str("prop", "C06"), use_cursor ? "conc_phantom_micro_iscan" : "conc_phantom_micro_scan", seed);
    rep.set_rule("tight two-thread races on small trees (3..12 border nodes, single layer or one sub-layer; keys removed again so that key ranges of borders start before their first key): per race one short "
                 "scan/cursor with node-version collection over 1..3 borders, whose right endpoint often falls into a gap before the first key of the next border, against one inserter putting 1..2 absent in-range keys "
                 "(often routed to the last border touched), both released by a spin barrier with a random skew of 0..2000 pause cycles; after both finished the reader re-validates every pair: all fresh => result must "
                 "contain every inserted key. The tree is rebuilt every 2000 races. distinct_nontrivial = races with overlap by (class, insert target: last-touched border / inside / first border, split?, layered?)");
    yk::init();
    Rng r(seed);
    std::atomic<uint64_t> next_id{1};
    // shared race descriptor
    struct Race {
        std::string lk, rk;
        std::vector<std::string> ins;
        std::vector<std::string> rem;  // present in-interval keys the writer removes first (mixed races)
        std::vector<std::string> out;  // absent keys just outside the interval the writer inserts last: they change the version of an edge border without touching the result
        std::string post;              // absent in-interval key inserted after both finished (C05 oracle on a concurrently taken read)
        uint32_t skew_reader{0}, skew_writer{0};
    } race;
    std::string storage = "pm";
    std::atomic<uint64_t> gen{0};
    std::atomic<int> done{0};
    std::atomic<bool> quit{false};
    // results of the reader
    std::vector<std::string> result_keys;
    NvVec nv;
    bool all_fresh = true;
    bool post_done = false, post_stale = false;
    uint64_t rinv = 0, rresp = 0, winv = 0, wresp = 0;
    std::atomic<int> writer_done{0};
    std::string reader_problem;
    bool r2l = false;

    std::thread reader([&] {
        alloc::set_role(alloc::ROLE_WORKER);
        ctl::thread_begin(0, seed * 3 + 1);
        uint64_t seen = 0;
        Session ses;
        while (true) {
            for (uint64_t w = 0; gen.load(std::memory_order_acquire) == seen && !quit.load(); ++w) {
                if (w < 3000) {
                    _mm_pause();
                } else {
                    sched_yield();
                }
            }
            if (quit.load()) { break; }
            seen = gen.load();
            ses.reenter();
            for (uint32_t k = race.skew_reader; k > 0; --k) { _mm_pause(); }
            nv.clear();
            result_keys.clear();
            reader_problem.clear();
            if (!use_cursor) {
                std::vector<ScanTuple> tl;
                rinv = stamp();
                status s = yk::scan<char>(storage, race.lk, scan_endpoint::INCLUSIVE, race.rk, scan_endpoint::INCLUSIVE, tl, &nv, 0, false);
                rresp = stamp();
                if (s != status::OK) { reader_problem = "status " + st(s); }
                for (auto& t : tl) {
                    result_keys.push_back(std::get<0>(t));
                    uint64_t vid = 0;
                    ValCheck vc = check_value(std::get<1>(t), std::get<2>(t), std::get<0>(t), vid);
                    if (vc != ValCheck::OK && reader_problem.empty()) { reader_problem = std::string("value ") + valcheck_name(vc) + " for key " + std::get<0>(t); }
                }
            } else {
                std::function<bool(yk::node_version64*, yk::node_version64_body)> cb = [&nv](yk::node_version64* p, yk::node_version64_body b) {
                    nv.emplace_back(b, p);
                    return false;
                };
                std::vector<CursorItem> items;
                rinv = stamp();
                status s = cursor_collect(storage, race.lk, scan_endpoint::INCLUSIVE, race.rk, scan_endpoint::INCLUSIVE, r2l, items, 0, &cb);
                rresp = stamp();
                if (s != status::OK_SCAN_END) { reader_problem = "status " + st(s); }
                for (auto& it : items) {
                    result_keys.push_back(it.key);
                    uint64_t vid = 0;
                    ValCheck vc = check_value_nolen(static_cast<char*>(it.value), it.key, vid);
                    if (vc != ValCheck::OK && reader_problem.empty()) { reader_problem = std::string("value ") + valcheck_name(vc) + " for key " + it.key; }
                }
                if (r2l) { std::reverse(result_keys.begin(), result_keys.end()); }
            }
            for (uint64_t w = 0; writer_done.load(std::memory_order_acquire) == 0; ++w) {
                if (w < 3000) {
                    _mm_pause();
                } else {
                    sched_yield();
                }
            }
            all_fresh = true;
            for (auto& [body, ptr] : nv) {
                if (ptr->get_stable_version() != body) { all_fresh = false; }
            }
            post_done = false;
            post_stale = false;
            if (!race.post.empty() && all_fresh && reader_problem.empty()) {
                // the read is over and its set is still fresh: a new key inserted into the covered interval now
                // must make at least one recorded pair stale (the reader's session stays open: nodes stay valid)
                Session s2;
                s2.reenter();
                status ps = yput(s2.tok, storage, race.post, make_value(next_id.fetch_add(1), race.post, 24), true);
                s2.leave();
                if (ps == status::OK) {
                    post_done = true;
                    for (auto& [body, ptr] : nv) {
                        if (ptr->get_stable_version() != body) { post_stale = true; }
                    }
                }
            }
            ses.leave();
            done.fetch_add(1);
        }
        ctl::thread_end();
    });
    std::thread writer([&] {
        alloc::set_role(alloc::ROLE_WORKER);
        ctl::thread_begin(1, seed * 3 + 2);
        uint64_t seen = 0;
        Session ses;
        while (true) {
            for (uint64_t w = 0; gen.load(std::memory_order_acquire) == seen && !quit.load(); ++w) {
                if (w < 3000) {
                    _mm_pause();
                } else {
                    sched_yield();
                }
            }
            if (quit.load()) { break; }
            seen = gen.load();
            ses.reenter();
            for (uint32_t k = race.skew_writer; k > 0; --k) { _mm_pause(); }
            winv = stamp();
            for (auto& k : race.rem) { yk::remove(ses.tok, storage, k); }
            for (auto& k : race.ins) {
                status s = yput(ses.tok, storage, k, make_value(next_id.fetch_add(1), k, 24), true);
                if (s != status::OK) { rep.violation("phantom:insert-status", "unique insert of an absent key failed", JObj().str("got", st(s)).done()); }
            }
            for (auto& k : race.out) {
                status s = yput(ses.tok, storage, k, make_value(next_id.fetch_add(1), k, 24), true);
                if (s != status::OK) { rep.violation("phantom:insert-status", "unique insert of an absent key failed", JObj().str("got", st(s)).done()); }
            }
            wresp = stamp();
            ses.leave();
            writer_done.store(1, std::memory_order_release);
            done.fetch_add(1);
        }
        ctl::thread_end();
    });

    Session main_ses;
    std::vector<std::string> present, absent;
    bool layered = false;
    bool toplink = false;
    uint64_t overlaps = 0;
    alloc::Counters c0 = alloc::counters();
    for (uint64_t rc = 0; rc < races && rep.violations() < 10; ++rc) {
        if (rc % 2000 == 0) {
            // ---- (re)build a small tree
            if (rc != 0) { yk::delete_storage(storage); }
            yk::create_storage(storage);
            main_ses.reenter();
            present.clear();
            absent.clear();
            layered = r.chance(1, 3);
            // toplink: the layer-0 border holds values on both sides of the link to the sub-layer, so a reader is
            // inside the sub-layer while the border that contributed values (or only the link) is modified
            toplink = layered && r.chance(1, 2);
            std::size_t nkeys = r.range(24, 90);
            if (toplink) {
                for (const char* k : {"C2", "C4", "C6", "x2", "x4"}) { present.emplace_back(k); }
                for (const char* k : {"C1", "C3", "C5", "C7", "x1", "x3", "x5"}) { absent.emplace_back(k); }
            }
            for (std::size_t i = 0; i < nkeys; ++i) {
                char b[32];
                for (int j = 0; j < 4; ++j) {
                    if (layered) {
                        snprintf(b, sizeof b, "MICROLAY%04zu", i * 4 + j);
                    } else {
                        snprintf(b, sizeof b, "q%05zu", i * 4 + j);
                    }
                    (j == 0 ? present : absent).emplace_back(b);
                }
            }
            for (auto& k : present) { yput(main_ses.tok, storage, k, make_value(next_id.fetch_add(1), k, 24)); }
            std::vector<std::string> kept;
            unsigned pct = static_cast<unsigned>(r.range(15, 50));
            for (auto& k : present) {
                if (r.chance(pct, 100) && kept.size() + 6 < present.size()) {
                    yk::remove(main_ses.tok, storage, k);
                    absent.push_back(k);
                } else {
                    kept.push_back(k);
                }
            }
            present.swap(kept);
            std::sort(present.begin(), present.end());
            std::sort(absent.begin(), absent.end());
            main_ses.leave();
            r2l = use_cursor && r.chance(1, 2);
            rep.count("trees");
        }
        // ---- one race
        std::size_t lo = r.below(toplink && r.chance(1, 2) ? std::min<std::size_t>(3, present.size()) : present.size());
        std::size_t hi = std::min(present.size() - 1, lo + r.below(20));
        race.lk = present[lo];
        race.rk = present[hi];
        if (r.chance(1, 4)) {
            // left endpoint on an absent key: the interval starts in a gap (in the value+link top border: after its last
            // value, so that the border contributes nothing but the link, and the endpoint itself can be inserted)
            auto it = std::upper_bound(absent.begin(), absent.end(), lo > 0 ? present[lo - 1] : std::string());
            if (toplink && r.chance(1, 2)) { it = std::lower_bound(absent.begin(), absent.end(), std::string("C7")); }
            if (it != absent.end() && *it < race.rk && *it < present[lo]) { race.lk = *it; }
        }
        const char* target = "inside";
        // right endpoint in the gap after present[hi]
        std::vector<std::string> gap;
        for (auto it = std::upper_bound(absent.begin(), absent.end(), present[hi]); it != absent.end() && (hi + 1 >= present.size() || *it < present[hi + 1]); ++it) { gap.push_back(*it); }
        race.ins.clear();
        if (!gap.empty() && r.chance(2, 3)) {
            race.rk = gap[r.below(gap.size())];
            // keys of the gap up to rk: these may be routed to the border *after* the one holding present[hi]
            std::vector<std::string> in_gap;
            for (auto& k : gap) {
                if (k <= race.rk) { in_gap.push_back(k); }
            }
            race.ins.push_back(in_gap[r.below(in_gap.size())]);
            target = "gap-before-next-border";
        } else {
            std::vector<std::string> cand;
            for (auto it = std::lower_bound(absent.begin(), absent.end(), race.lk); it != absent.end() && *it < race.rk; ++it) { cand.push_back(*it); }
            if (cand.empty()) { continue; }
            race.ins.push_back(cand[r.below(cand.size())]);
            if (r.chance(1, 3)) {
                std::string k2 = cand[r.below(cand.size())];
                if (k2 != race.ins[0]) { race.ins.push_back(k2); }
            }
        }
        race.rem.clear();
        race.post.clear();
        bool mixed = r.chance(1, 3);
        if (mixed) {
            // the writer also removes one or two present keys of the interval
            std::vector<std::string> pin;
            for (auto& k : present) {
                if (k >= race.lk && k <= race.rk) { pin.push_back(k); }
            }
            for (std::size_t i = 0; i < 2 && !pin.empty(); ++i) {
                if (i == 0 || r.chance(1, 2)) {
                    std::string k = pin[r.below(pin.size())];
                    if (std::find(race.rem.begin(), race.rem.end(), k) == race.rem.end()) { race.rem.push_back(k); }
                }
            }
        }
        race.out.clear();
        if (r.chance(1, 3)) {
            // nearest absent keys below l_key / above r_key: not part of the result, but they often live in the first / last border the read touches
            auto below = std::lower_bound(absent.begin(), absent.end(), race.lk);
            auto above = std::upper_bound(absent.begin(), absent.end(), race.rk);
            bool up = r.chance(1, 2);
            if (up && above != absent.end()) {
                race.out.push_back(toplink && r.chance(1, 2) ? absent.back() : *above);
            } else if (below != absent.begin()) {
                race.out.push_back(*(below - 1));
            }
            if (!race.out.empty() && (race.out[0] >= race.lk && race.out[0] <= race.rk)) { race.out.clear(); }
            if (!race.out.empty() && r.chance(1, 2)) { race.ins.clear(); } // sometimes the out-of-interval insert is the only insert
        }
        if (r.chance(1, 2)) {
            // post-insert candidate: a removed key, or any absent key of the interval that is not inserted in this race
            std::vector<std::string> pc = race.rem;
            for (auto it = std::lower_bound(absent.begin(), absent.end(), race.lk); it != absent.end() && *it <= race.rk; ++it) {
                if (std::find(race.ins.begin(), race.ins.end(), *it) == race.ins.end()) { pc.push_back(*it); }
            }
            if (!pc.empty()) { race.post = pc[r.below(pc.size())]; }
        }
        race.skew_reader = static_cast<uint32_t>(r.below(r.chance(1, 2) ? 200 : 2000));
        race.skew_writer = static_cast<uint32_t>(r.below(r.chance(1, 2) ? 200 : 2000));
        writer_done.store(0);
        done.store(0);
        gen.fetch_add(1, std::memory_order_release);
        for (uint64_t w = 0; done.load(std::memory_order_acquire) < 2; ++w) {
            if (w < 3000) {
                _mm_pause();
            } else {
                sched_yield();
            }
        }
        rep.eval();
        // ---- verdict
        bool overlap = winv < rresp && wresp > rinv;
        std::vector<std::string> want;
        for (auto& k : present) {
            if (k >= race.lk && k <= race.rk) { want.push_back(k); }
        }
        for (auto& k : race.ins) { want.push_back(k); }
        std::sort(want.begin(), want.end());
        // insert-only race: exact. mixed race: a removed key may or may not be in the result
        bool complete = result_keys == want;
        if (!race.rem.empty()) {
            std::vector<std::string> without;
            for (auto& k : want) {
                if (std::find(race.rem.begin(), race.rem.end(), k) == race.rem.end()) { without.push_back(k); }
            }
            complete = std::includes(result_keys.begin(), result_keys.end(), without.begin(), without.end());
        }
        alloc::Counters c1 = alloc::counters();
        bool split = c1.node_allocs != c0.node_allocs;
        c0 = c1;
        auto describe = [&]() {
            JObj d;
            d.str("api", use_cursor ? (r2l ? "iscan-backward" : "iscan-forward") : "scan").boolean("layered", layered).str("l_key", race.lk).str("r_key", race.rk).str("inserted", race.ins.empty() ? std::string("-") : race.ins[0]).str("inserted_outside", race.out.empty() ? std::string("-") : race.out[0]).boolean("toplink", toplink).str("insert_target", target);
            d.num("result_keys", result_keys.size()).num("keys_present_after", want.size()).num("set_size", nv.size()).boolean("split", split).num("race", rc);
            return d;
        };
        bool ordered = true;
        for (std::size_t i = 0; i < result_keys.size(); ++i) {
            if (i > 0 && result_keys[i] <= result_keys[i - 1]) { ordered = false; }
            if (!std::binary_search(want.begin(), want.end(), result_keys[i])) { ordered = false; }
        }
        if (post_only) {
            // C05 runs: only the oracles of that property (post-insert staleness, non-empty set)
            if (reader_problem.empty() && nv.empty()) { rep.violation("phantom:empty-version-set", "reader collected no node version", describe().done()); }
        } else if (!reader_problem.empty()) {
            rep.violation(reader_problem.rfind("value", 0) == 0 ? "phantom:reader-invalid-value" : "phantom:reader-status", "reader failed: " + reader_problem, describe().done());
        } else if (!ordered) {
            // independent of the freshness of the version set: duplicates, disorder, keys outside the interval
            rep.violation(std::string("phantom:") + (use_cursor ? "iscan" : "scan") + ":result-not-ascending-subset-of-interval",
                          "the result contains a key twice, out of order, or a key that was never in the interval", describe().done());
        } else if (nv.empty()) {
            rep.violation("phantom:empty-version-set", "reader collected no node version", describe().done());
        } else if (all_fresh && !complete) {
            rep.violation(std::string("phantom:") + (use_cursor ? "iscan" : "scan") + ":insert-missed-with-fresh-version-set",
                          "every collected (version,node) pair is unchanged after the race, yet the result lacks a key that was inserted into the interval", describe().done());
        }
        if (post_done) {
            rep.count("post_inserts_checked");
            if (!post_stale) {
                rep.violation(std::string("phantom:") + (use_cursor ? "iscan" : "scan") + ":post-insert-undetected",
                              "after a (concurrently taken) read whose set was still fresh, an insert into the covered interval left every recorded pair fresh",
                              describe().str("post_inserted", race.post).num("removed_during_read", race.rem.size()).done());
            }
        }
        const char* cls = !overlap ? "no-overlap" : (all_fresh ? "fresh-and-complete" : "stale");
        rep.count(std::string("races_") + cls);
        if (overlap) {
            ++overlaps;
            rep.distinct(mix64(hash_bytes(cls), mix64(hash_bytes(target), mix64(split ? 1 : 0, mix64(layered ? 1 : 0, use_cursor ? (r2l ? 2 : 1) : 0)))));
            rep.count(std::string("overlap_target_") + target);
            if (rep.get("samples_taken") < 3) {
                rep.count("samples_taken");
                rep.sample(describe().str("class", cls).done());
            }
        }
        // ---- restore: remove what was inserted (quiescent)
        main_ses.reenter();
        if (post_done) { yk::remove(main_ses.tok, storage, race.post); }
        for (auto& k : race.rem) { yput(main_ses.tok, storage, k, make_value(next_id.fetch_add(1), k, 24)); }
        for (auto& k : race.out) { yk::remove(main_ses.tok, storage, k); }
        for (auto& k : race.ins) {
            if (yk::remove(main_ses.tok, storage, k) != status::OK) { rep.violation("phantom:inserted-key-lost", "a key whose insert returned OK cannot be removed at quiescence", JObj().str("key", k).done()); }
        }
        main_ses.leave();
        if (rc % 2000 == 1999) {
            Model model;
            main_ses.reenter();
            for (auto& k : present) {
                std::pair<char*, std::size_t> o;
                if (yget(storage, k, o) == status::OK) { model[k] = std::string(o.first, o.second); }
            }
            main_ses.leave();
            coherence_check(rep, storage, model, true, nullptr);
        }
    }
    quit.store(true);
    reader.join();
    writer.join();
    yk::delete_storage(storage);
    yk::fin();
    drain_alloc_problems(rep);
    rep.count("races_with_overlap", overlaps);
    if (overlaps < 50) { rep.inconclusive("fewer than 50 races in which the insert overlapped the read"); }
    return rep.finish();
}
