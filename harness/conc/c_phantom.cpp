// C06 (and the node-version clause of C10): a scan/cursor that collects node
// versions races insert-only writers. At the quiescent end of the round:
// all collected pairs still fresh  ==>  the scan saw exactly the keys present.
#include "conc_common.h"

using namespace vf;

int run_phantom(const Args& a) {
    uint64_t seed = a.num("seed", 1);
    uint64_t rounds = a.num("rounds", 1000);
    bool use_cursor = a.num("cursor", 0) != 0;
    bool delays = a.num("delays", 1) != 0;
    Report rep(a.str("prop", "C06"), use_cursor ? "conc_phantom_iscan" : "conc_phantom_scan", seed);
    rep.set_rule("per round: a multi-node tree (single layer, 60..400 keys, or multi-layer), one reader (scan with node_version_vec / cursor with a collecting callback) and 1..3 inserters doing 1..3 inserts each of absent keys "
                 "placed into the first border of the interval, the middle, the last border, and into full borders (split while the reader is between recording the next pointer and validating the current node; delay injection "
                 "at SCAN_NEXT_LOADED / SCAN_BEFORE_FINAL); after all calls completed the reader re-reads every recorded (version,node) pair; all fresh => key set of the result must equal the keys present in the interval. "
                 "Rounds are classified fresh-and-complete / stale / no-overlap. distinct_nontrivial = rounds with an insert overlapping the read, by (class, insert position class, split?, scenario, api)");
    yk::init();
    Rng r(seed);
    std::atomic<uint64_t> next_id{1};
    Session main_ses;
    uint64_t rounds_overlap = 0;
    for (uint64_t rd = 0; rd < rounds && rep.violations() < 10; ++rd) {
        // ---- build a fresh tree (quiescent)
        std::string storage = "ph";
        yk::create_storage(storage);
        main_ses.reenter();
        bool layered = rd % 3 == 2;
        std::vector<std::string> present, absent;
        std::size_t nkeys = r.range(60, 400);
        for (std::size_t i = 0; i < nkeys; ++i) {
            char b[32];
            if (layered) {
                snprintf(b, sizeof b, "LAYER%03zu%03zu", i / 30, (i % 30) * 4);
            } else {
                snprintf(b, sizeof b, "p%05zu", i * 4);
            }
            present.emplace_back(b);
            for (int j = 1; j < 4; ++j) {
                if (layered) {
                    snprintf(b, sizeof b, "LAYER%03zu%03zu", i / 30, (i % 30) * 4 + j);
                } else {
                    snprintf(b, sizeof b, "p%05zu", i * 4 + j);
                }
                absent.emplace_back(b);
            }
        }
        std::sort(present.begin(), present.end());
        for (auto& k : present) { yput(main_ses.tok, storage, k, make_value(next_id.fetch_add(1), k, 24)); }
        main_ses.leave();
        alloc::Counters c0 = alloc::counters();
        // ---- interval and inserts
        std::size_t lo = r.below(present.size());
        std::size_t hi = r.range(lo, present.size() - 1);
        bool full = r.chance(1, 3);
        if (full) {
            lo = 0;
            hi = present.size() - 1;
        }
        std::string lk = present[lo], rk = present[hi];
        int W = static_cast<int>(r.range(1, 3));
        std::vector<std::vector<std::string>> ins(W);
        std::vector<std::string> all_ins;
        const char* pos_class = "";
        {
            // candidates inside the interval
            std::vector<std::string> cand;
            for (auto& k : absent) {
                if (k > lk && k < rk) { cand.push_back(k); }
            }
            std::sort(cand.begin(), cand.end());
            if (cand.empty()) {
                yk::delete_storage(storage);
                continue;
            }
            unsigned where = static_cast<unsigned>(r.below(4));
            for (int w = 0; w < W; ++w) {
                std::size_t cnt = r.range(1, 3);
                for (std::size_t c = 0; c < cnt; ++c) {
                    std::size_t idx;
                    switch (where) {
                        case 0: idx = r.below(std::min<std::size_t>(cand.size(), 12)); pos_class = "first-border"; break;
                        case 1: idx = cand.size() / 2 + r.below(std::min<std::size_t>(cand.size() - cand.size() / 2, 12)); pos_class = "middle"; break;
                        case 2: idx = cand.size() - 1 - r.below(std::min<std::size_t>(cand.size(), 12)); pos_class = "last-border"; break;
                        default: idx = r.below(cand.size()); pos_class = "anywhere"; break;
                    }
                    if (std::find(all_ins.begin(), all_ins.end(), cand[idx]) == all_ins.end()) {
                        ins[w].push_back(cand[idx]);
                        all_ins.push_back(cand[idx]);
                    }
                }
            }
        }
        ctl::Profile prof;
        if (delays) {
            prof.at(ctl::point::SCAN_NEXT_LOADED) = ctl::Rule{static_cast<uint32_t>(r.range(2000, 40000)), 2, static_cast<uint32_t>(r.range(200, 6000))};
            prof.at(ctl::point::SCAN_BEFORE_FINAL) = ctl::Rule{static_cast<uint32_t>(r.range(2000, 40000)), 2, static_cast<uint32_t>(r.range(200, 6000))};
            if (r.chance(1, 2)) { prof.at(ctl::point::LOCK_ACQ) = ctl::Rule{8000, 2, 3000}; }
            if (r.chance(1, 3)) { prof.at(ctl::point::ATOMIC) = ctl::Rule{500, 2, 300}; }
            ctl::g_profile.store(&prof);
        }
        std::atomic<int> writers_left{W};
        std::vector<std::pair<uint64_t, uint64_t>> ins_stamp(W, {UINT64_MAX, 0});
        uint64_t rinv = 0, rresp = 0;
        std::vector<std::string> result_keys;
        NvVec nv;
        bool all_fresh = true;
        std::string reader_problem;
        bool r2l = use_cursor && r.chance(1, 2);
        uint64_t round_seed = seed * 104729 + rd;
        run_round(W + 1, round_seed, [&](int tid) {
            Rng tr(round_seed * 17 + tid);
            Session ses;
            ses.reenter();
            if (tid < W) {
                // start a little after the reader so that inserts land behind / under / ahead of it
                for (uint64_t k = tr.below(3000); k > 0; --k) { _mm_pause(); }
                for (auto& k : ins[tid]) {
                    uint64_t i0 = stamp();
                    status s = yput(ses.tok, storage, k, make_value(next_id.fetch_add(1), k, 24), true);
                    uint64_t i1 = stamp();
                    if (s != status::OK) { rep.violation("phantom:insert-status", "unique insert of an absent key failed", JObj().str("got", st(s)).done()); }
                    ins_stamp[tid].first = std::min(ins_stamp[tid].first, i0);
                    ins_stamp[tid].second = std::max(ins_stamp[tid].second, i1);
                    for (uint64_t p = tr.below(2000); p > 0; --p) { _mm_pause(); }
                }
                ses.leave();
                writers_left.fetch_sub(1);
                return;
            }
            // reader
            if (!use_cursor) {
                std::vector<ScanTuple> tl;
                rinv = stamp();
                status s = yk::scan<char>(storage, lk, scan_endpoint::INCLUSIVE, rk, scan_endpoint::INCLUSIVE, tl, &nv, 0, false);
                rresp = stamp();
                if (s != status::OK) { reader_problem = "status " + st(s); }
                for (auto& t : tl) { result_keys.push_back(std::get<0>(t)); }
            } else {
                std::function<bool(yk::node_version64*, yk::node_version64_body)> cb = [&nv](yk::node_version64* p, yk::node_version64_body b) {
                    nv.emplace_back(b, p);
                    return false;
                };
                std::vector<CursorItem> items;
                rinv = stamp();
                status s = cursor_collect(storage, lk, scan_endpoint::INCLUSIVE, rk, scan_endpoint::INCLUSIVE, r2l, items, 0, &cb);
                rresp = stamp();
                if (s != status::OK_SCAN_END) { reader_problem = "status " + st(s); }
                for (auto& it : items) { result_keys.push_back(it.key); }
                if (r2l) { std::reverse(result_keys.begin(), result_keys.end()); }
            }
            // keep the session open (protects the recorded nodes) until every insert has completed
            while (writers_left.load() > 0) { _mm_pause(); }
            for (auto& [body, ptr] : nv) {
                if (ptr->get_stable_version() != body) { all_fresh = false; }
            }
            ses.leave();
        });
        ctl::g_profile.store(nullptr);
        rep.eval();
        rep.count("rounds");
        alloc::Counters c1 = alloc::counters();
        bool split = c1.node_allocs != c0.node_allocs;
        // ---- classify
        bool overlap = false;
        for (auto& [i0, i1] : ins_stamp) {
            if (i0 != UINT64_MAX && i0 < rresp && i1 > rinv) { overlap = true; }
        }
        std::vector<std::string> want = present;
        want.erase(std::remove_if(want.begin(), want.end(), [&](const std::string& k) { return k < lk || k > rk; }), want.end());
        for (auto& k : all_ins) { want.push_back(k); }
        std::sort(want.begin(), want.end());
        bool complete = result_keys == want;
        auto describe = [&]() {
            JObj d;
            d.str("api", use_cursor ? (r2l ? "iscan-backward" : "iscan-forward") : "scan").boolean("layered", layered).num("keys", present.size()).str("l_key", lk).str("r_key", rk).num("inserters", W).num("inserts", all_ins.size());
            d.str("insert_position", pos_class).boolean("split_during_round", split).num("result_keys", result_keys.size()).num("keys_present_after", want.size()).num("set_size", nv.size()).num("round", rd);
            return d;
        };
        if (!reader_problem.empty()) {
            rep.violation("phantom:reader-status", "reader failed: " + reader_problem, describe().done());
        } else if (nv.empty()) {
            rep.violation("phantom:empty-version-set", "reader collected no node version", describe().done());
        } else if (all_fresh && !complete) {
            std::string missing;
            for (auto& k : want) {
                if (std::find(result_keys.begin(), result_keys.end(), k) == result_keys.end()) {
                    missing = k;
                    break;
                }
            }
            rep.violation(std::string("phantom:") + (use_cursor ? "iscan" : "scan") + ":insert-missed-with-fresh-version-set",
                          "every collected (version,node) pair is unchanged after the round, yet the result lacks a key that was inserted into the interval", describe().str("first_missing", missing).done());
        }
        const char* cls = !overlap ? "no-overlap" : (all_fresh ? "fresh-and-complete" : "stale");
        rep.count(std::string("rounds_") + cls);
        if (overlap) {
            ++rounds_overlap;
            rep.distinct(mix64(hash_bytes(cls), mix64(hash_bytes(pos_class), mix64(split ? 1 : 0, mix64(layered ? 1 : 0, use_cursor ? (r2l ? 2 : 1) : 0)))));
            if (split) { rep.count("overlap_rounds_with_split"); }
            rep.count(std::string("overlap_pos_") + pos_class);
            if (rep.get("samples_taken") < 4) {
                rep.count("samples_taken");
                rep.sample(describe().str("class", cls).num("read_inv", rinv).num("read_resp", rresp).done());
            }
        }
        // quiescent: structure + content
        Model model;
        main_ses.reenter();
        for (auto& k : present) {
            std::pair<char*, std::size_t> o;
            if (yget(storage, k, o) == status::OK) { model[k] = std::string(o.first, o.second); }
        }
        for (auto& k : all_ins) {
            std::pair<char*, std::size_t> o;
            if (yget(storage, k, o) == status::OK) {
                model[k] = std::string(o.first, o.second);
            } else {
                rep.violation("phantom:inserted-key-lost", "a key whose insert returned OK is not readable at quiescence", JObj().str("key", k).done());
            }
        }
        main_ses.leave();
        coherence_check(rep, storage, model, true, nullptr);
        drain_alloc_problems(rep);
        yk::delete_storage(storage);
    }
    rep.note("hook_counts", ctl::counts_json());
    rep.note("delays_injected", ctl::delays_json());
    yk::fin();
    drain_alloc_problems(rep);
    if (rounds_overlap < 5) { rep.inconclusive("fewer than 5 rounds in which an insert overlapped the read"); }
    return rep.finish();
}
