// C13 (sequential half): storages as a map name -> independent ordered map.
#include "treegen.h"

using namespace vf;

namespace {

std::string gen_name(Rng& r, KeyGen& kg, const std::vector<std::string>& existing) {
    switch (r.below(8)) {
        case 0: return "";
        case 1: return std::string(r.range(1, 3), static_cast<char>(kg.abyte()));
        case 2: return kg.fresh();
        case 3:
            if (!existing.empty()) { return kg.derive(existing[r.below(existing.size())]); }
            return kg.fresh();
        case 4: return std::string(r.range(256, 300), static_cast<char>(kg.abyte()));
        case 5: return "tbl" + std::to_string(r.below(40));
        case 6: return std::string(8, 'P') + std::to_string(r.below(30));
        default: return std::string(16, 'Q') + std::string(1, static_cast<char>(r.below(256)));
    }
}

} // namespace

int run_storage(const Args& a) {
    uint64_t seed = a.num("seed", 1);
    uint64_t programs = a.num("programs", 100);
    uint64_t nops = a.num("ops", 300);
    Report rep(a.str("prop", "C13"), "seq_storage", seed);
    rep.set_rule("PRNG programs over storage names (empty, binary, 1-3 bytes, >255 bytes, sharing 8/16-byte prefixes, up to ~40 live names so the namespace tree "
                 "itself splits and has layers) mixing create/delete/find/list with put/get/remove/scan/iscan_open by name; model = std::map<name, std::map<key,value>>; "
                 "every status compared, every storage fully scanned against its own model at checkpoints. distinct_nontrivial = distinct (op, outcome, #storages class, name class) cells");
    yk::init();
    Rng r(seed);
    KeyGenCfg cfg;
    cfg.long_key_permille = 0;
    for (uint64_t p = 0; p < programs && rep.violations() < 30; ++p) {
        KeyGen kg(r, cfg);
        std::map<std::string, Model> ns;
        Session ses;
        ses.reenter();
        auto names = [&]() {
            std::vector<std::string> v;
            for (auto& kv : ns) { v.push_back(kv.first); }
            return v;
        };
        auto pick_name = [&](bool prefer_existing) {
            auto v = names();
            if (!v.empty() && (prefer_existing ? r.chance(9, 10) : r.chance(1, 3))) { return v[r.below(v.size())]; }
            return gen_name(r, kg, v);
        };
        auto cell = [&](const char* op, status s, const std::string& nm) {
            rep.distinct(mix64(hash_bytes(op), mix64(static_cast<uint64_t>(s), mix64(std::min<std::size_t>(ns.size(), 20) / 5, nm.empty() ? 0 : (nm.size() > 255 ? 3 : (nm.size() > 8 ? 2 : 1))))));
            rep.count(std::string(op) + "_" + st(s));
        };
        auto fail = [&](const std::string& key, const std::string& what, JObj d) {
            d.num("program", p).num("storages", ns.size());
            rep.violation(key, what, d.done());
        };
        for (uint64_t i = 0; i < nops; ++i) {
            rep.eval();
            if (i % 20 == 0) { ses.reenter(); }
            unsigned x = static_cast<unsigned>(r.below(100));
            if (x < 12) {
                std::string nm = pick_name(false);
                bool exists = ns.count(nm) != 0U;
                status s = yk::create_storage(nm);
                cell("create", s, nm);
                status want = exists ? status::WARN_UNIQUE_RESTRICTION : status::OK;
                if (s != want) { fail("storage:create-status", "create_storage status differs from the map model", JObj().str("name", hex(nm)).str("got", st(s)).str("want", st(want))); }
                if (!exists && s == status::OK) { ns[nm]; }
                if (exists) {
                    // failed create must not disturb the existing storage
                    std::vector<ScanTuple> tl;
                    yk::scan<char>(nm, "", scan_endpoint::INF, "", scan_endpoint::INF, tl, nullptr, 0, false);
                    if (tl.size() != ns[nm].size()) { fail("storage:failed-create-disturbed-content", "content changed after a failed create", JObj().str("name", hex(nm))); }
                }
            } else if (x < 20) {
                std::string nm = pick_name(true);
                bool exists = ns.count(nm) != 0U;
                status s = yk::delete_storage(nm);
                cell("delete", s, nm);
                status want = exists ? status::OK : status::WARN_NOT_EXIST;
                if (s != want) { fail("storage:delete-status", "delete_storage status differs from the map model", JObj().str("name", hex(nm)).str("got", st(s)).str("want", st(want))); }
                if (s == status::OK) { ns.erase(nm); }
            } else if (x < 26) {
                std::string nm = pick_name(false);
                yk::tree_instance* ti = nullptr;
                status s = yk::find_storage(nm, &ti);
                cell("find", s, nm);
                status want = ns.count(nm) != 0U ? status::OK : status::WARN_NOT_EXIST;
                if (s != want || (s == status::OK && ti == nullptr)) { fail("storage:find-status", "find_storage differs from the map model", JObj().str("name", hex(nm)).str("got", st(s))); }
            } else if (x < 31) {
                std::vector<std::pair<std::string, yk::tree_instance*>> out;
                status s = yk::list_storages(out);
                cell("list", s, "");
                bool ok = ns.empty() ? (s == status::WARN_NOT_EXIST && out.empty()) : (s == status::OK && out.size() == ns.size());
                if (ok) {
                    auto it = ns.begin();
                    for (auto& o : out) {
                        if (o.first != it->first || o.second == nullptr) { ok = false; }
                        ++it;
                    }
                }
                if (!ok) { fail("storage:list-differs", "list_storages differs from the model (names, order or status)", JObj().str("got", st(s)).num("listed", out.size())); }
            } else {
                // data operation by name
                std::string nm = pick_name(true);
                auto it = ns.find(nm);
                bool exists = it != ns.end();
                std::string k;
                if (exists && !it->second.empty() && r.chance(1, 2)) {
                    auto kit = it->second.begin();
                    std::advance(kit, r.below(it->second.size()));
                    k = kit->first;
                } else {
                    k = r.chance(1, 2) ? "shared-key-" + std::to_string(r.below(6)) : kg.fresh();
                }
                unsigned y = static_cast<unsigned>(r.below(5));
                if (y == 0) {
                    std::string v = nm.substr(0, 8) + ":" + kg.value(16);
                    status s = yput(ses.tok, nm, k, v);
                    cell("put", s, nm);
                    status want = exists ? status::OK : status::WARN_STORAGE_NOT_EXIST;
                    if (s != want) { fail("storage:put-status", "put by name", JObj().str("name", hex(nm)).str("got", st(s))); }
                    if (s == status::OK && exists) { it->second[k] = v; }
                } else if (y == 1) {
                    std::pair<char*, std::size_t> o;
                    status s = yget(nm, k, o);
                    cell("get", s, nm);
                    status want = !exists ? status::WARN_STORAGE_NOT_EXIST : (it->second.count(k) != 0U ? status::OK : status::WARN_NOT_EXIST);
                    if (s != want) {
                        fail("storage:get-status", "get by name", JObj().str("name", hex(nm)).str("key", hex(k)).str("got", st(s)).str("want", st(want)));
                    } else if (s == status::OK) {
                        const std::string& wv = it->second[k];
                        if (o.second != wv.size() || memcmp(o.first, wv.data(), wv.size()) != 0) {
                            fail("storage:get-value-from-other-storage-or-stale", "value differs from this storage's model", JObj().str("name", hex(nm)).str("key", hex(k)));
                        }
                    }
                } else if (y == 2) {
                    status s = yk::remove(ses.tok, nm, k);
                    cell("remove", s, nm);
                    bool ok = !exists ? s == status::WARN_STORAGE_NOT_EXIST
                                      : (it->second.count(k) != 0U ? s == status::OK : (s == status::OK_NOT_FOUND || s == status::OK_ROOT_IS_NULL));
                    if (!ok) { fail("storage:remove-status", "remove by name", JObj().str("name", hex(nm)).str("got", st(s))); }
                    if (exists && s == status::OK) { it->second.erase(k); }
                } else if (y == 3) {
                    std::vector<ScanTuple> tl;
                    status s = yk::scan<char>(nm, "", scan_endpoint::INF, "", scan_endpoint::INF, tl, nullptr, 0, false);
                    cell("scan", s, nm);
                    bool ok = !exists ? s == status::WARN_STORAGE_NOT_EXIST : ((s == status::OK || s == status::OK_ROOT_IS_NULL) && tl.size() == it->second.size());
                    if (!ok) { fail("storage:scan-by-name", "scan by name", JObj().str("name", hex(nm)).str("got", st(s)).num("n", tl.size())); }
                } else {
                    yk::iscan_context* ctx = nullptr;
                    void* v = nullptr;
                    status s = yk::iscan_open(nm, "", scan_endpoint::INF, "", scan_endpoint::INF, r.chance(1, 2), false, ctx, v);
                    cell("iscan_open", s, nm);
                    bool ok = !exists ? (s == status::WARN_STORAGE_NOT_EXIST && ctx == nullptr) : (it->second.empty() ? s == status::OK_SCAN_END : s == status::OK);
                    if (!ok) { fail("storage:iscan-open-by-name", "iscan_open by name", JObj().str("name", hex(nm)).str("got", st(s))); }
                    if (ctx != nullptr) { yk::iscan_close(ctx); }
                }
            }
            rep.maxc("max_simultaneous_storages", ns.size());
            if (i % 60 == 59 || i + 1 == nops) {
                // isolation checkpoint: every storage equals its own model
                ses.leave();
                for (auto& [nm, m] : ns) { coherence_check(rep, nm, m, true, nullptr, false); }
                rep.count("isolation_checkpoints");
                ses.reenter();
            }
        }
        if (p < 2) { rep.sample(JObj().num("program", p).num("ops", nops).num("final_storages", ns.size()).done()); }
        // namespace tree shape (it is an ordinary tree of names)
        {
            Walker w(true);
            WalkResult wr = w.walk(yk::storage::get_storages());
            for (auto& [k, d] : wr.errors) { rep.violation("walker:namespace:" + k, "namespace tree structure", d); }
            rep.maxc("namespace_tree_borders", wr.n_border);
            rep.maxc("namespace_tree_layers", wr.n_layers);
        }
        ses.leave();
        for (auto& nm : names()) {
            status s = yk::delete_storage(nm);
            if (s != status::OK) { rep.violation("storage:cleanup-delete", "delete of an existing storage failed", JObj().str("got", st(s)).done()); }
        }
        std::vector<std::pair<std::string, yk::tree_instance*>> out;
        if (yk::list_storages(out) != status::WARN_NOT_EXIST) { rep.violation("storage:list-after-deleting-all", "namespace not empty after deleting every storage", "{}"); }
        rep.count("programs");
    }
    yk::fin();
    drain_alloc_problems(rep);
    if (alloc::counters().live_blocks != 0) { rep.violation("storage:blocks-live-after-fin", "blocks live after fin", "{}"); }
    return rep.finish();
}
