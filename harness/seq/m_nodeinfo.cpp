// C12: inserted_node_info of put() vs the set of border nodes whose version
// word actually changed (walker snapshots before/after every put).
#include "treegen.h"

using namespace vf;

int run_nodeinfo(const Args& a) {
    uint64_t seed = a.num("seed", 1);
    uint64_t programs = a.num("programs", 200);
    uint64_t nputs = a.num("puts", 120);
    Report rep(a.str("prop", "C12"), "seq_nodeinfo", seed);
    rep.set_rule("per program: a storage is prebuilt from one of 7 shape families, then N instrumented puts (new keys from the adversarial key generator, "
                 "dense families that force border splits left/right and interior cascades, keys creating 1..n new layers, overwrites); before and after each put "
                 "the walker snapshots address->version word of every reachable border; oracle: {pre-existing borders whose word changed} == {modified_nvp}, "
                 "created_nvp == version of the new same-layer right sibling iff a border split happened, overwrite changes nothing, legacy overload == modified_nvp. "
                 "distinct_nontrivial = distinct (put class, tree depth class, layer of modified border, layers created) cells");
    yk::init();
    Rng r(seed);
    KeyGenCfg cfg;
    cfg.long_key_permille = 2;
    KeyGen kg(r, cfg);
    for (uint64_t p = 0; p < programs && rep.violations() < 30; ++p) {
        std::string storage = "ni";
        yk::create_storage(storage);
        Session ses;
        ses.reenter();
        Model model;
        TreeGen tg(r, kg, 260, 24);
        int family = static_cast<int>(p % 8);
        if (p % 3 != 0) { tg.build(ses.tok, storage, model, family); }
        yk::tree_instance* ti = nullptr;
        yk::find_storage(storage, &ti);
        // a dense family to be inserted key by key (forces splits at every rank)
        std::vector<std::string> dense = kg.dense_family(r.range(20, 300), static_cast<std::size_t>(r.below(3)) * 8 + r.below(2));
        for (std::size_t i = dense.size(); i > 1; --i) {
            if (r.chance(1, 2)) { std::swap(dense[i - 1], dense[r.below(i)]); }
        }
        std::size_t dense_pos = 0;
        for (uint64_t i = 0; i < nputs; ++i) {
            if (i % 16 == 0) { ses.reenter(); }
            std::string k;
            bool want_overwrite = r.chance(1, 8) && !model.empty();
            if (want_overwrite) {
                auto it = model.begin();
                std::advance(it, r.below(model.size()));
                k = it->first;
            } else if (r.chance(1, 2) && dense_pos < dense.size()) {
                k = dense[dense_pos++];
            } else {
                std::vector<std::string> pool;
                if (!model.empty()) {
                    auto it = model.begin();
                    std::advance(it, r.below(model.size()));
                    pool.push_back(it->first);
                }
                k = kg.next(pool);
            }
            bool present = model.count(k) != 0U;
            Walker w(false);
            WalkResult before = w.walk(ti);
            yk::inserted_node_info ini{};
            yk::node_version64* legacy = nullptr;
            bool use_legacy = r.chance(1, 3);
            std::string v = kg.value(24);
            static char dummy = 0;
            char* vp = v.empty() ? &dummy : v.data();
            status s;
            if (use_legacy) {
                s = yk::put<char>(ses.tok, storage, k, vp, v.size(), static_cast<char**>(nullptr), static_cast<yk::value_align_type>(1), false, &legacy);
            } else {
                s = yk::put<char>(ses.tok, storage, k, vp, v.size(), static_cast<char**>(nullptr), static_cast<yk::value_align_type>(1), false, &ini);
            }
            rep.eval();
            if (s != status::OK) {
                rep.violation("nodeinfo:put-status", "put failed", JObj().str("got", st(s)).done());
                continue;
            }
            model[k] = v;
            WalkResult after = w.walk(ti);
            for (auto& [ek, ed] : after.errors) { rep.violation("walker:" + ek, "structure broken after put", ed); }
            std::vector<yk::border_node*> changed, fresh;
            for (auto& [b, vw] : after.border_versions) {
                auto it = before.border_versions.find(b);
                if (it == before.border_versions.end()) {
                    fresh.push_back(b);
                } else if (it->second != vw) {
                    changed.push_back(b);
                }
            }
            auto describe = [&]() {
                JObj d;
                d.str("key", hex(k)).boolean("overwrite", present).boolean("legacy_overload", use_legacy).num("changed_borders", changed.size()).num("new_borders", fresh.size());
                d.num("program", p).num("put_index", i).str("family", TreeGen::family_name(family)).num("keys", model.size());
                return d;
            };
            if (present) {
                rep.count("puts_overwrite");
                if (!changed.empty() || !fresh.empty()) {
                    rep.violation("nodeinfo:overwrite-changed-a-version", "a put that only overwrites changed a border version", describe().done());
                }
                rep.distinct(mix64(1, std::min<std::size_t>(before.max_depth, 2)));
                continue;
            }
            yk::node_version64* mod = use_legacy ? legacy : ini.modified_nvp;
            // classify the new borders
            yk::border_node* split_sibling = nullptr;
            std::size_t new_layer_borders = 0;
            yk::border_node* modb = nullptr;
            for (auto& [b, vw] : after.border_versions) {
                (void) vw;
                if (b->get_version_ptr() == mod) { modb = b; }
            }
            for (auto* nb : fresh) {
                if (modb != nullptr && nb->prev_ == modb && after.border_layer[nb] == after.border_layer[modb]) {
                    split_sibling = nb;
                } else {
                    ++new_layer_borders;
                }
            }
            const char* cls = "plain";
            if (split_sibling != nullptr) {
                // which side received the key?
                bool in_left = false;
                uint64_t perm = modb->permutation_.body_.load();
                (void) perm;
                cls = "split";
                (void) in_left;
            }
            if (new_layer_borders != 0) { cls = split_sibling != nullptr ? "split+new-layers" : "new-layers"; }
            if (before.root_deleted_empty) { cls = "revive-deleted-root"; }
            rep.count(std::string("puts_") + cls);
            if (after.n_interior > before.n_interior) { rep.count("puts_creating_interiors", after.n_interior - before.n_interior); }
            if (after.max_depth > before.max_depth) { rep.count("puts_growing_depth"); }
            rep.distinct(mix64(hash_bytes(cls), mix64(std::min<std::size_t>(before.max_depth, 3), mix64(modb != nullptr ? std::min(after.border_layer[modb], 3) : 9, std::min<std::size_t>(new_layer_borders, 3)))));
            if (mod == nullptr || modb == nullptr) {
                rep.violation("nodeinfo:modified-node-not-a-reachable-border", "modified_nvp is null or not the version word of a reachable border", describe().done());
                continue;
            }
            bool pre_existing = before.border_versions.count(modb) != 0U;
            // expected changed set
            bool ok = true;
            if (pre_existing) {
                ok = changed.size() == 1 && changed[0] == modb;
            } else {
                // the modified node itself is new (only legal when a whole new structure was created); nothing else may change
                ok = changed.empty();
            }
            if (!ok) {
                JObj d = describe();
                d.boolean("modified_is_preexisting", pre_existing).boolean("modified_in_changed_set", std::find(changed.begin(), changed.end(), modb) != changed.end());
                std::string key = "nodeinfo:changed-set-differs-from-modified_nvp";
                if (changed.size() > 1) { key += ":extra-border-changed"; }
                if (changed.empty()) { key += ":reported-border-unchanged"; }
                rep.violation(key, "set of borders whose version changed differs from {modified_nvp}", d.done());
            }
            if (!use_legacy) {
                if (split_sibling != nullptr) {
                    if (ini.created_nvp != split_sibling->get_version_ptr()) {
                        rep.violation("nodeinfo:created_nvp-not-the-split-sibling", "border split happened but created_nvp is not the new sibling", describe().boolean("created_null", ini.created_nvp == nullptr).done());
                    }
                } else if (ini.created_nvp != nullptr) {
                    rep.violation("nodeinfo:created_nvp-without-split", "created_nvp set although no border split happened", describe().done());
                }
            }
            if (rep.get("puts_split") + rep.get("puts_plain") <= 4) {
                rep.sample(describe().str("class", cls).done());
            }
        }
        ses.leave();
        yk::delete_storage(storage);
        rep.count("programs");
    }
    yk::fin();
    drain_alloc_problems(rep);
    if (rep.get("puts_split") == 0) { rep.inconclusive("no border split observed"); }
    return rep.finish();
}
