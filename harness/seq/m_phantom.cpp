// C05: node-version sets collected by reads must detect every later insert
// into the covered interval. Quiescent, direct oracle: read -> insert absent
// key k (other session) -> at least one collected pair must be stale.
#include "treegen.h"

using namespace vf;

namespace {

struct Covered { // covered interval as [lo, hi] with kinds
    std::string lo, hi;
    scan_endpoint lo_e{scan_endpoint::INF}, hi_e{scan_endpoint::INF};
    [[nodiscard]] bool contains(const std::string& k) const {
        if (lo_e != scan_endpoint::INF) {
            int c = k.compare(lo);
            if (c < 0 || (c == 0 && lo_e == scan_endpoint::EXCLUSIVE)) { return false; }
        }
        if (hi_e != scan_endpoint::INF) {
            int c = k.compare(hi);
            if (c > 0 || (c == 0 && hi_e == scan_endpoint::EXCLUSIVE)) { return false; }
        }
        return true;
    }
};

struct ReadSpec {
    int kind; // 0 scan, 1 get-miss, 2 iscan
    std::string l, r;
    scan_endpoint le, re;
    std::size_t max_size;
    bool r2l;
    std::size_t stop_after; // iscan: 0 = to the end
    [[nodiscard]] std::string label() const {
        if (kind == 1) { return "get-miss"; }
        if (kind == 0) {
            if (r2l) { return "scan-right-to-left"; }
            if (max_size != 0) { return "scan-limited"; }
            if (le == scan_endpoint::INF && re == scan_endpoint::INF) { return "scan-full"; }
            return "scan-bounded";
        }
        std::string s = r2l ? "iscan-backward" : "iscan-forward";
        if (stop_after != 0) { s += "-stopped"; }
        return s;
    }
    [[nodiscard]] JObj json() const {
        JObj d;
        d.str("read", label()).str("l_key", hex(l)).str("l_end", ep(le)).str("r_key", hex(r)).str("r_end", ep(re)).num("max_size", max_size).boolean("right_to_left", r2l).num("stop_after", stop_after);
        return d;
    }
};

struct ReadResult {
    bool valid{false};
    NvVec nv;
    std::vector<std::string> keys; // produced keys in production order
    Covered cov;
    bool complete{true};
};

ReadResult do_read(const std::string& storage, const ReadSpec& s, Report& rep) {
    ReadResult out;
    if (s.kind == 1) {
        std::pair<char*, std::size_t> o;
        std::pair<yk::node_version64_body, yk::node_version64*> cv{};
        status rc = yget(storage, s.l, o, &cv);
        if (rc != status::WARN_NOT_EXIST) { return out; }
        out.valid = true;
        if (cv.second != nullptr) { out.nv.emplace_back(cv); }
        out.cov = Covered{s.l, s.l, scan_endpoint::INCLUSIVE, scan_endpoint::INCLUSIVE};
        return out;
    }
    if (s.kind == 0) {
        std::vector<ScanTuple> tl;
        status rc = yk::scan<char>(storage, s.l, s.le, s.r, s.re, tl, &out.nv, s.max_size, s.r2l);
        if (rc != status::OK) { return out; }
        out.valid = true;
        for (auto& t : tl) { out.keys.push_back(std::get<0>(t)); }
        out.cov = Covered{s.le == scan_endpoint::INF ? "" : s.l, s.re == scan_endpoint::INF ? "" : s.r, s.le, s.re};
        if (s.max_size != 0 && tl.size() >= s.max_size) {
            out.complete = false;
            if (s.r2l) {
                out.cov.lo = out.keys.back();
                out.cov.lo_e = scan_endpoint::INCLUSIVE;
            } else {
                out.cov.hi = out.keys.back();
                out.cov.hi_e = scan_endpoint::INCLUSIVE;
            }
        }
        (void) rep;
        return out;
    }
    // iscan with a collecting callback
    std::function<bool(yk::node_version64*, yk::node_version64_body)> cb = [&out](yk::node_version64* p, yk::node_version64_body b) {
        out.nv.emplace_back(b, p);
        return false;
    };
    std::vector<CursorItem> items;
    status rc = cursor_collect(storage, s.l, s.le, s.r, s.re, s.r2l, items, s.stop_after, &cb);
    if (rc != status::OK && rc != status::OK_SCAN_END) { return out; }
    out.valid = true;
    for (auto& it : items) { out.keys.push_back(it.key); }
    out.cov = Covered{s.le == scan_endpoint::INF ? "" : s.l, s.re == scan_endpoint::INF ? "" : s.r, s.le, s.re};
    if (rc == status::OK) { // stopped by the caller after stop_after entries
        out.complete = false;
        if (s.r2l) {
            out.cov.lo = out.keys.back();
            out.cov.lo_e = scan_endpoint::INCLUSIVE;
        } else {
            out.cov.hi = out.keys.back();
            out.cov.hi_e = scan_endpoint::INCLUSIVE;
        }
    }
    return out;
}

} // namespace

int run_phantom(const Args& a) {
    uint64_t seed = a.num("seed", 1);
    uint64_t trees = a.num("trees", 60);
    uint64_t reads = a.num("reads", 12);
    uint64_t cands = a.num("cands", 10);
    Report rep(a.str("prop", "C05"), "seq_phantom", seed);
    rep.set_rule("per tree (7 shape families incl. link-only borders): reads = scan (full/bounded/size-limited/right-to-left) with node_version_vec, "
                 "get-miss with checked_version, iscan (both directions, to the end / stopped after j entries / single point) with a collecting callback; "
                 "for each read, absent candidate keys inside the covered interval (derived from stored keys, endpoints, 8-byte cuts; keys that land in "
                 "upper-layer borders) are inserted by another session and every recorded (version,node) pair is compared with the node's current stable version. "
                 "distinct_nontrivial = distinct (read kind, complete?, candidate placement class, shape class) cells with >=1 in-range candidate");
    yk::init();
    Rng r(seed);
    KeyGenCfg cfg;
    cfg.long_key_permille = 0;
    KeyGen kg(r, cfg);
    const scan_endpoint eps[3] = {scan_endpoint::EXCLUSIVE, scan_endpoint::INCLUSIVE, scan_endpoint::INF};
    for (uint64_t t = 0; t < trees && rep.violations() < 40; ++t) {
        std::string storage = "ph";
        yk::create_storage(storage);
        Session ses, wses;
        ses.reenter();
        Model model;
        TreeGen tg(r, kg, a.num("maxkeys", 200), 24);
        static const int fam_cycle[] = {3, 2, 0, 1, 3, 4, 5, 2, 6, 7};
        int family = fam_cycle[t % 10];
        tg.build(ses.tok, storage, model, family);
        rep.count("trees");
        std::vector<std::string> keys;
        for (auto& kv : model) { keys.push_back(kv.first); }
        for (uint64_t rd = 0; rd < reads; ++rd) {
            // ---- choose a read
            ReadSpec s{};
            s.kind = static_cast<int>(r.below(10));
            s.kind = s.kind < 5 ? 0 : (s.kind < 6 ? 1 : 2);
            auto anykey = [&]() -> std::string {
                if (keys.empty() || r.chance(1, 6)) { return kg.fresh(); }
                const std::string& k = keys[r.below(keys.size())];
                switch (r.below(5)) {
                    case 0: return k;
                    case 1: return k.substr(0, r.below(k.size() + 1));
                    case 2: return k.substr(0, k.size() / 8 * 8);
                    case 3: return kg.derive(k);
                    default: return k + std::string(1, static_cast<char>(kg.abyte()));
                }
            };
            s.l = anykey();
            s.r = anykey();
            // both endpoints inside ONE slice of some layer (common prefix of 8k bytes, different remainders): the whole
            // interval lives in a next layer that mostly does not exist yet, so only the border that would receive the
            // link can be reported (seeded C05-e)
            bool same_slice = r.chance(1, 6);
            if (same_slice) {
                std::string pfx = anykey();
                pfx.resize(8 * r.range(1, 3), static_cast<char>(kg.abyte()));
                auto suffix = [&]() {
                    std::string x;
                    for (uint64_t i = 0, n = r.range(1, 10); i < n; ++i) { x.push_back(static_cast<char>(kg.abyte())); }
                    return x;
                };
                s.l = pfx + suffix();
                s.r = pfx + suffix();
                if (s.l == s.r) { s.r.push_back('\x01'); }
            }
            s.le = eps[r.below(3)];
            s.re = eps[r.below(3)];
            if (s.le != scan_endpoint::INF && s.re != scan_endpoint::INF && s.l > s.r) { std::swap(s.l, s.r); }
            if (same_slice && s.le != scan_endpoint::INF && s.re != scan_endpoint::INF && r.chance(1, 2)) { s.re = scan_endpoint::INCLUSIVE; }
            if (!same_slice && r.chance(1, 4)) { s.le = s.re = scan_endpoint::INF; }
            s.max_size = r.chance(1, 2) ? 0 : r.range(1, 3);
            s.r2l = false;
            if (s.kind == 0 && r.chance(1, 6)) {
                s.r2l = true;
                s.re = scan_endpoint::INF;
                s.max_size = 1;
            }
            if (s.kind == 2) {
                s.r2l = r.chance(1, 2);
                s.max_size = 0;
                s.stop_after = r.chance(1, 2) ? 0 : r.range(1, 4);
                if (r.chance(1, 8)) { // single point
                    s.r = s.l;
                    s.le = s.re = scan_endpoint::INCLUSIVE;
                }
            }
            if (s.kind == 1) {
                s.l = anykey();
                if (model.count(s.l) != 0U) { s.l += std::string(1, '\x01'); }
                if (model.count(s.l) != 0U) { continue; }
            } else if (model_range_is_bad(s.l, s.le, s.r, s.re)) {
                continue;
            }
            // ---- first execution: learn the covered interval, build candidates
            ses.reenter();
            ReadResult r0 = do_read(storage, s, rep);
            if (!r0.valid) { continue; }
            rep.eval();
            rep.count("reads_" + s.label());
            if (same_slice && s.kind != 1) { rep.count("reads_with_both_endpoints_in_one_slice"); }
            if (r0.nv.empty()) {
                bool must = s.kind != 2; // scan / get-miss: never empty on an existing storage
                if (must) {
                    rep.violation("phantom:" + s.label() + ":empty-version-set", "read on an existing storage collected no (version,node) pair",
                                  s.json().num("tree", t).str("family", TreeGen::family_name(family)).num("keys", model.size()).num("produced", r0.keys.size()).done());
                }
            }
            rep.maxc("max_set_size", r0.nv.size());
            std::vector<std::pair<std::string, const char*>> cset;
            auto add = [&](std::string k, const char* cls) {
                if (model.count(k) != 0U) { return; }
                cset.emplace_back(std::move(k), cls);
            };
            if (s.kind == 1) {
                add(s.l, "the-missed-key");
            } else {
                // neighbours of produced keys and of the endpoints
                std::vector<std::string> seeds = r0.keys;
                if (s.le != scan_endpoint::INF) { seeds.push_back(s.l); }
                if (s.re != scan_endpoint::INF) { seeds.push_back(s.r); }
                // stored keys inside the covered interval that were not produced cannot exist (quiescent), but
                // neighbours just outside help as negative controls
                for (uint64_t c = 0; c < cands && !seeds.empty(); ++c) {
                    const std::string& b = seeds[r.below(seeds.size())];
                    switch (r.below(8)) {
                        case 0: add(b + std::string(1, '\0'), "successor"); break;
                        case 1: add(kg.derive(b), "derived"); break;
                        case 2: {
                            // lands in an upper-layer border: change something inside the first 8k bytes
                            if (b.size() > 8) {
                                std::string k = b.substr(0, 8 * r.range(1, b.size() / 8));
                                k.back() = static_cast<char>(static_cast<unsigned char>(k.back()) + (r.chance(1, 2) ? 1 : -1));
                                if (r.chance(1, 2)) { k.resize(k.size() - r.below(4)); }
                                add(k, "upper-layer-border");
                            }
                            break;
                        }
                        case 3: add(b.substr(0, b.size() / 8 * 8), "slice-cut"); break;
                        case 4: add(b + std::string(8, static_cast<char>(kg.abyte())) + "x", "new-layer-below"); break;
                        case 5:
                            if (!b.empty()) { add(b.substr(0, b.size() - 1), "truncated"); }
                            break;
                        case 6: add(s.l, "left-endpoint"); add(s.r, "right-endpoint"); break;
                        default: add(kg.fresh(), "random"); break;
                    }
                }
                if (r0.keys.empty()) { add(kg.fresh(), "random"); }
                if (same_slice) {
                    add(s.l + std::string(1, '\x01'), "between-same-slice-endpoints");
                    add(s.r.substr(0, s.r.size() - 1), "between-same-slice-endpoints");
                    add(s.l, "left-endpoint");
                    add(s.r, "right-endpoint");
                }
            }
            // ---- evaluate candidates, re-reading before each
            for (auto& [ck, cls] : cset) {
                ses.reenter();
                ReadResult rr = do_read(storage, s, rep);
                if (!rr.valid) { break; }
                bool inside = rr.cov.contains(ck);
                if (!inside) {
                    rep.count("candidates_outside_interval");
                    continue;
                }
                wses.reenter();
                // optionally remove keys between the read and the insert: removes never change a node version by
                // design, so the guarantee must survive them (e.g. the emptied and revived root border)
                std::vector<std::pair<std::string, std::string>> taken;
                unsigned rm_mode = static_cast<unsigned>(r.below(6)); // 0: remove everything, 1: remove the produced keys, 2: some
                if (rm_mode <= 2 && !model.empty()) {
                    for (auto& kv : model) {
                        bool victim = rm_mode == 0 || (rm_mode == 1 && std::find(rr.keys.begin(), rr.keys.end(), kv.first) != rr.keys.end()) || (rm_mode == 2 && r.chance(1, 3));
                        if (victim && yk::remove(wses.tok, storage, kv.first) == status::OK) { taken.emplace_back(kv.first, kv.second); }
                    }
                    rep.count("inserts_preceded_by_removes");
                    if (rm_mode == 0) { rep.count("inserts_into_emptied_tree"); }
                }
                status ps = yput(wses.tok, storage, ck, "phantom-value");
                wses.leave();
                auto restore = [&]() {
                    wses.reenter();
                    for (auto& [k, v] : taken) { yput(wses.tok, storage, k, v); }
                    wses.leave();
                };
                if (ps != status::OK) {
                    restore();
                    continue;
                }
                bool stale = false;
                for (auto& [body, ptr] : rr.nv) {
                    if (ptr->get_stable_version() != body) { stale = true; }
                }
                rep.eval();
                rep.count("inserts_checked");
                rep.count(std::string("cand_") + cls);
                rep.distinct(mix64(hash_bytes(s.label()), mix64(hash_bytes(cls), mix64(rr.complete ? 1 : 0, std::min<std::size_t>(ck.size() / 8, 3)))));
                if (!stale) {
                    JObj d = s.json();
                    d.str("inserted_key", hex(ck)).str("candidate_class", cls).num("set_size", rr.nv.size()).num("produced", rr.keys.size()).boolean("complete", rr.complete);
                    d.num("tree", t).str("family", TreeGen::family_name(family)).num("keys", model.size()).num("keys_removed_between_read_and_insert", taken.size());
                    if (!rr.keys.empty()) { d.str("last_produced", hex(rr.keys.back())); }
                    if (model.size() <= 6) {
                        std::vector<std::string> mk;
                        for (auto& kv : model) { mk.push_back(jesc(hex(kv.first))); }
                        d.raw("all_stored_keys", jarr(mk));
                    }
                    std::string key = "phantom:" + s.label() + (rr.nv.empty() ? ":insert-undetected-empty-set" : ":insert-undetected");
                    rep.violation(key, "insert into the covered interval left every collected (version,node) pair fresh", d.done());
                }
                if (rep.get("inserts_checked") <= 3) {
                    rep.sample(s.json().str("inserted_key", hex(ck)).str("candidate_class", cls).num("set_size", rr.nv.size()).boolean("stale_after_insert", stale).done());
                }
                wses.reenter();
                yk::remove(wses.tok, storage, ck);
                wses.leave();
                restore();
            }
        }
        ses.leave();
        yk::delete_storage(storage);
    }
    yk::fin();
    drain_alloc_problems(rep);
    if (rep.get("inserts_checked") < 10) { rep.inconclusive("fewer than 10 in-range inserts checked"); }
    return rep.finish();
}
