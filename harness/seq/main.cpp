// Dispatcher of the sequential (single-session) differential harnesses.
#include <glog/logging.h>
#include <pthread.h>

#include "ykw.h"

int run_map(const vf::Args&);
int run_scan(const vf::Args&);
int run_phantom(const vf::Args&);
int run_iscan(const vf::Args&);
int run_nodeinfo(const vf::Args&);
int run_storage(const vf::Args&);
int run_value(const vf::Args&);
int run_memusage(const vf::Args&);

static int dispatch(const vf::Args& args);

namespace {
struct Boot {
    const vf::Args* args;
    int rc;
};
void* boot(void* p) {
    auto* b = static_cast<Boot*>(p);
    b->rc = dispatch(*b->args);
    return nullptr;
}
} // namespace

int main(int argc, char** argv) {
    google::InitGoogleLogging(argv[0]);
    FLAGS_logtostderr = true;
    FLAGS_minloglevel = 0;
    vf::Args args(argc, argv);
    // The walker (and the library's own per-layer recursion in scan / destroy / mem_usage) descends one level per 8
    // key bytes; the "huge key" programs build several thousand trie layers, which does not fit the default 8 MiB
    // stack under ASan. Run the harness on a thread with a large (lazily committed) stack.
    pthread_attr_t attr;
    pthread_attr_init(&attr);
    pthread_attr_setstacksize(&attr, static_cast<size_t>(1) << 30U);
    Boot b{&args, 2};
    pthread_t th{};
    if (pthread_create(&th, &attr, boot, &b) != 0) { return dispatch(args); }
    pthread_join(th, nullptr);
    return b.rc;
}

static int dispatch(const vf::Args& args) {
    // under valgrind the tool replaces operator new/delete itself: run without the registry (--alloc=off)
    vf::setup_alloc(args.str("alloc", "full") == "off" ? vf::alloc::Mode::OFF : vf::alloc::Mode::FULL);
    vf::ctl::install();
    std::string mode = args.str("mode");
    if (mode == "map") { return run_map(args); }
    if (mode == "scan") { return run_scan(args); }
    if (mode == "phantom") { return run_phantom(args); }
    if (mode == "iscan") { return run_iscan(args); }
    if (mode == "nodeinfo") { return run_nodeinfo(args); }
    if (mode == "storage") { return run_storage(args); }
    if (mode == "value") { return run_value(args); }
    if (mode == "memusage") { return run_memusage(args); }
    fprintf(stderr, "unknown --mode %s\n", mode.c_str());
    return 2;
}
