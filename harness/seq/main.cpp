// Dispatcher of the sequential (single-session) differential harnesses.
#include <glog/logging.h>

#include "ykw.h"

int run_map(const vf::Args&);
int run_scan(const vf::Args&);
int run_phantom(const vf::Args&);
int run_iscan(const vf::Args&);
int run_nodeinfo(const vf::Args&);
int run_storage(const vf::Args&);
int run_value(const vf::Args&);
int run_memusage(const vf::Args&);

int main(int argc, char** argv) {
    google::InitGoogleLogging(argv[0]);
    FLAGS_logtostderr = true;
    FLAGS_minloglevel = 0;
    vf::Args args(argc, argv);
    // under valgrind the tool replaces operator new/delete itself: run without the registry (--alloc=off)
    vf::setup_alloc(args.str("alloc", "full") == "off" ? vf::alloc::Mode::OFF : vf::alloc::Mode::FULL);
    vf::ctl::install();
    std::string mode = args.str("mode");
    if (mode == "map") { return run_map(args); }
    if (mode == "scan") { return run_scan(args); }
    if (mode == "phantom") { return run_phantom(args); }
    if (mode == "iscan") { return run_iscan(args); }
    if (mode == "nodeinfo") { return run_nodeinfo(args); }
    if (mode == "storage") { return run_storage(args); }
    if (mode == "value") { return run_value(args); }
    if (mode == "memusage") { return run_memusage(args); }
    fprintf(stderr, "unknown --mode %s\n", mode.c_str());
    return 2;
}
