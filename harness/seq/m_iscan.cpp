// C10, quiescent half and the deterministic "step-interleaved" part of the
// concurrent half: cursor enumeration vs the model in both directions, argument
// validation, and early_abort detection of writes made between two cursor steps.
#include <set>

#include "treegen.h"

using namespace vf;

namespace {

std::string pick_endpoint(Rng& r, KeyGen& kg, const std::vector<std::string>& keys, const char*& cls) {
    if (keys.empty() || r.chance(1, 8)) {
        cls = "random";
        return kg.fresh();
    }
    const std::string& k = keys[r.below(keys.size())];
    switch (r.below(7)) {
        case 0: cls = "stored"; return k;
        case 1: cls = "prefix"; return k.substr(0, r.below(k.size() + 1));
        case 2: cls = "successor"; return k + std::string(1, '\0');
        case 3: cls = "slice-cut"; return k.substr(0, k.size() / 8 * 8);
        case 4: cls = "derived"; return kg.derive(k);
        case 5: {
            cls = "inside-or-beside-sublayer";
            std::string p = k.substr(0, std::min<std::size_t>(k.size(), 8 * r.range(1, 3)));
            p += std::string(1, static_cast<char>(kg.abyte()));
            return p;
        }
        default: cls = "stored"; return k;
    }
}

uint64_t raw_version(yk::border_node* bn) {
    auto v = bn->get_version();
    uint64_t w = 0;
    memcpy(&w, &v, sizeof w);
    return w;
}

} // namespace

int run_iscan(const Args& a) {
    uint64_t seed = a.num("seed", 1);
    uint64_t trees = a.num("trees", 80);
    uint64_t cursors = a.num("cursors", 60);
    uint64_t steppers = a.num("steppers", 20);
    uint64_t bursts = a.num("bursts", 10);
    Report rep(a.str("prop", "C10"), "seq_iscan", seed);
    // C09 uses this workload for progress only (every cursor call must return); the results are C10's business
    rep.mute_result_oracles(a.num("progress_only", 0) != 0);
    rep.set_rule("per tree (7 shape families): cursors with endpoints from stored keys/prefixes/successors/slice cuts, all endpoint kinds, both directions, "
                 "consumed to OK_SCAN_END or stopped after j steps; every produced (full_key,value) compared with the model interval in the requested "
                 "direction; argument validation compared with scan's range rules. Step-interleaved part: between two iscan_next calls of an early_abort "
                 "cursor the harness performs one put/remove in another session and compares version word + permutation of the border on top of the cursor "
                 "stack before/after; changed => next call must return WARN_CONCURRENT_OPERATIONS. distinct_nontrivial = distinct (direction, endpoint classes, "
                 "kinds, max stack depth, shape class) cells with non-empty expected output + distinct (direction, modified?, write kind, depth) step cells");
    yk::init();
    Rng r(seed);
    KeyGenCfg cfg;
    KeyGen kg(r, cfg);
    const scan_endpoint eps[3] = {scan_endpoint::EXCLUSIVE, scan_endpoint::INCLUSIVE, scan_endpoint::INF};
    for (uint64_t t = 0; t < trees && rep.violations() < 30; ++t) {
        std::string storage = "is";
        yk::create_storage(storage);
        Session ses, wses;
        ses.reenter();
        Model model;
        TreeGen tg(r, kg, a.num("maxkeys", 250), 24);
        int family = static_cast<int>(t % 8);
        tg.build(ses.tok, storage, model, family);
        rep.count("trees");
        std::vector<std::string> keys;
        for (auto& kv : model) { keys.push_back(kv.first); }
        yk::tree_instance* ti = nullptr;
        yk::find_storage(storage, &ti);
        Walker w(true);
        WalkResult wr = w.walk(ti);
        uint64_t shape_class = mix64(std::min<std::size_t>(wr.max_depth, 2), std::min<std::size_t>(wr.n_layers, 3));

        // ---------------- quiescent enumeration
        for (uint64_t c = 0; c < cursors; ++c) {
            const char* lc = "";
            const char* rc_ = "";
            std::string lk = pick_endpoint(r, kg, keys, lc);
            std::string rk = pick_endpoint(r, kg, keys, rc_);
            scan_endpoint le = eps[r.below(3)];
            scan_endpoint re = eps[r.below(3)];
            if (r.chance(3, 4) && le != scan_endpoint::INF && re != scan_endpoint::INF && lk > rk) { std::swap(lk, rk); }
            if (r.chance(1, 6)) { le = re = scan_endpoint::INF; }
            bool r2l = r.chance(1, 2);
            std::size_t stop_after = r.chance(1, 4) ? r.range(1, 5) : 0;
            bool unknown = r.chance(1, 80);
            bool null_l = r.chance(1, 60);
            std::string_view lsv = null_l ? std::string_view{} : std::string_view{lk};
            if (null_l) { lk.clear(); }
            std::vector<CursorItem> items;
            std::size_t max_stack = 0;
            status rc = cursor_collect(unknown ? std::string_view{"no-such"} : std::string_view{storage}, lsv, le, rk, re, r2l, items, stop_after, nullptr, false, &max_stack);
            rep.eval();
            auto describe = [&]() {
                JObj d;
                d.str("l_key", hex(lk)).str("l_end", ep(le)).str("r_key", hex(rk)).str("r_end", ep(re)).boolean("right_to_left", r2l).num("stop_after", stop_after);
                d.str("l_class", lc).str("r_class", rc_).str("family", TreeGen::family_name(family)).num("tree", t).num("keys", model.size());
                return d;
            };
            bool bad = model_range_is_bad(lsv, le, rk, re);
            if (bad) {
                rep.count("bad_usage_cases");
                if (rc != status::ERR_BAD_USAGE) {
                    rep.violation("iscan:bad-usage-not-rejected", "iscan_open accepted a range that scan rejects", describe().str("got", st(rc)).done());
                }
                continue;
            }
            if (unknown) {
                if (rc != status::WARN_STORAGE_NOT_EXIST) {
                    rep.violation("iscan:unknown-storage-status", "iscan_open on a missing storage", describe().str("got", st(rc)).done());
                }
                continue;
            }
            if (rc == status::ERR_BAD_USAGE) {
                rep.violation("iscan:valid-arguments-rejected", "iscan_open rejected a range that scan accepts", describe().done());
                continue;
            }
            auto want = model_range(model, lk, le, rk, re);
            if (r2l) { std::reverse(want.begin(), want.end()); }
            bool truncated = false;
            if (stop_after != 0 && want.size() > stop_after) {
                want.resize(stop_after);
                truncated = true;
            }
            status want_rc = truncated || (stop_after != 0 && want.size() == stop_after) ? status::OK : status::OK_SCAN_END;
            bool same = items.size() == want.size() && (rc == want_rc || (stop_after != 0 && items.size() == stop_after));
            std::size_t diff = 0;
            const char* diff_kind = "count-or-status";
            for (std::size_t i = 0; same && i < items.size(); ++i) {
                if (items[i].key != want[i].first) {
                    same = false;
                    diff = i;
                    diff_kind = "key";
                } else if (!want[i].second.empty() && (items[i].value == nullptr || memcmp(items[i].value, want[i].second.data(), want[i].second.size()) != 0)) {
                    same = false;
                    diff = i;
                    diff_kind = "value";
                }
            }
            if (!same) {
                JObj d = describe();
                d.num("got_n", items.size()).num("want_n", want.size()).str("status", st(rc)).num("first_diff", diff).str("diff_kind", diff_kind);
                // find first missing key for classification
                std::string missing;
                for (std::size_t i = 0; i < want.size(); ++i) {
                    if (i >= items.size() || items[i].key != want[i].first) {
                        missing = want[i].first;
                        break;
                    }
                }
                d.str("first_missing_or_different", hex(missing));
                bool ff_class = false;
                for (std::size_t off = 0; off + 8 < missing.size(); off += 8) {
                    if (missing.compare(off, 8, std::string(8, '\xff')) == 0) { ff_class = true; }
                }
                std::string key = std::string("iscan:") + (r2l ? "backward" : "forward") + ":result-differs";
                if (r2l && ff_class) { key = "iscan:backward:skips-key-after-ff-slice"; }
                rep.violation(key, "cursor output differs from the interval content of the model", d.done());
                continue;
            }
            rep.count(r2l ? "cursors_backward" : "cursors_forward");
            if (stop_after != 0) { rep.count("cursors_stopped_early"); }
            rep.count("cursor_steps", items.size());
            rep.maxc("max_stack_depth", max_stack);
            if (max_stack >= 2) { rep.count("cursors_crossing_layers"); }
            if (!want.empty()) {
                uint64_t h = mix64(hash_bytes(lc), hash_bytes(rc_));
                h = mix64(h, static_cast<uint64_t>(le) * 3 + static_cast<uint64_t>(re));
                h = mix64(h, (r2l ? 1 : 0) + 2 * std::min<std::size_t>(max_stack, 3));
                h = mix64(h, shape_class);
                rep.distinct(h);
                rep.count("nonempty_cursors");
            }
            if (t < 2 && c < 2) { rep.sample(describe().num("produced", items.size()).num("max_stack", max_stack).done()); }
        }

        // ---------------- step-interleaved early_abort
        for (uint64_t sidx = 0; sidx < steppers && !model.empty(); ++sidx) {
            bool r2l = r.chance(1, 2);
            yk::iscan_context* ctx = nullptr;
            void* v = nullptr;
            ses.reenter();
            status rc = yk::iscan_open(storage, "", scan_endpoint::INF, "", scan_endpoint::INF, r2l, true, ctx, v);
            std::size_t steps = 0;
            std::size_t max_steps = r.range(1, 40);
            std::string last_key;
            bool have_last = false;
            while (rc == status::OK && steps < max_steps) {
                std::string cur = ctx->full_key();
                // the cursor must keep enumerating the current model content monotonically
                if (have_last && ((!r2l && cur <= last_key) || (r2l && cur >= last_key))) {
                    rep.violation("iscan:step:not-monotone", "cursor keys not strictly monotone across steps", JObj().str("prev", hex(last_key)).str("cur", hex(cur)).boolean("right_to_left", r2l).done());
                    break;
                }
                last_key = cur;
                have_last = true;
                ++steps;
                yk::border_node* top = ctx->stack_top().bn;
                std::size_t depth = ctx->stack_size();
                uint64_t v0 = raw_version(top);
                uint64_t p0 = top->permutation_.body_.load();
                // one write in another session, usually near the cursor
                int wkind = static_cast<int>(r.below(4));
                std::string wk;
                const char* wname = "none";
                status ws = status::OK;
                wses.reenter();
                if (wkind == 0) {
                    wk = kg.derive(cur);
                    if (model.count(wk) == 0U) {
                        ws = yput(wses.tok, storage, wk, "w");
                        if (ws == status::OK) { model[wk] = "w"; }
                        wname = "insert-near";
                    }
                } else if (wkind == 1) {
                    // remove a neighbour of the current key (not the current key itself)
                    auto it = model.upper_bound(cur);
                    if (r2l && it != model.begin()) {
                        it = model.find(cur);
                        if (it != model.begin() && it != model.end()) { --it; }
                    }
                    if (it != model.end() && it->first != cur) {
                        wk = it->first;
                        ws = yk::remove(wses.tok, storage, wk);
                        if (ws == status::OK) { model.erase(wk); }
                        wname = "remove-neighbour";
                    }
                } else if (wkind == 2) {
                    wk = kg.fresh();
                    if (model.count(wk) == 0U) {
                        ws = yput(wses.tok, storage, wk, "w");
                        if (ws == status::OK) { model[wk] = "w"; }
                        wname = "insert-elsewhere";
                    }
                }
                wses.leave();
                uint64_t v1 = raw_version(top);
                uint64_t p1 = top->permutation_.body_.load();
                bool modified = v0 != v1 || p0 != p1;
                rc = yk::iscan_next(ctx, v);
                rep.eval();
                rep.count("interleaved_steps");
                rep.distinct(mix64(0x57e9, mix64((r2l ? 1 : 0) + (modified ? 2 : 0), mix64(hash_bytes(wname), std::min<std::size_t>(depth, 3)))));
                if (modified) {
                    rep.count("steps_after_top_border_modified");
                    if (rc != status::WARN_CONCURRENT_OPERATIONS) {
                        JObj d;
                        d.str("cursor_key", hex(cur)).str("write", wname).str("write_key", hex(wk)).str("next_status", st(rc)).boolean("right_to_left", r2l).num("stack_depth", depth);
                        d.boolean("version_changed", v0 != v1).boolean("permutation_changed", p0 != p1);
                        rep.violation(std::string("iscan:early-abort:modification-not-reported:") + wname, "early_abort cursor continued after the border under it was modified", d.done());
                        break;
                    }
                    rep.count("early_abort_reported");
                    break;
                }
                if (rc == status::WARN_CONCURRENT_OPERATIONS) { rep.count("early_abort_without_top_modification"); }
            }
            if (ctx != nullptr) { yk::iscan_close(ctx); }
        }
        // ---------------- paused cursor (no early_abort) with bursts of writes between two steps
        // Deterministic realisation of "writers that split, empty or replace the root of a next layer the cursor is
        // inside or about to enter": while the cursor is paused the harness fills / drains the layer the cursor is
        // in and the layers above it, so that several structural changes fall into one pause.
        for (uint64_t bidx = 0; bidx < bursts && !model.empty(); ++bidx) {
            bool r2l = r.chance(1, 2);
            Model initial = model;
            std::set<std::string> removed;
            yk::iscan_context* ctx = nullptr;
            void* v = nullptr;
            ses.reenter();
            alloc::watch_window(true);
            status rc = yk::iscan_open(storage, "", scan_endpoint::INF, "", scan_endpoint::INF, r2l, false, ctx, v);
            alloc::watch_window(false);
            std::vector<std::string> produced;
            uint64_t nbursts = 0;
            bool bad = false;
            std::vector<std::string> burst_log;
            while (rc == status::OK && !bad) {
                std::string cur = ctx->full_key();
                auto mit = model.find(cur);
                if (mit == model.end() && initial.count(cur) == 0U) {
                    rep.violation(std::string("iscan:paused:") + (r2l ? "backward" : "forward") + ":reported-key-was-never-stored", "cursor reported a key that was never stored",
                                  JObj().str("key", hex(cur)).num("tree", t).str("family", TreeGen::family_name(family)).raw("bursts", jarr(burst_log)).done());
                    bad = true;
                    break;
                }
                if (!produced.empty() && ((!r2l && cur <= produced.back()) || (r2l && cur >= produced.back()))) {
                    rep.violation(std::string("iscan:paused:") + (r2l ? "backward" : "forward") + ":not-strictly-monotone", "cursor keys not strictly monotone",
                                  JObj().str("prev", hex(produced.back())).str("cur", hex(cur)).num("tree", t).raw("bursts", jarr(burst_log)).done());
                    bad = true;
                    break;
                }
                produced.push_back(cur);
                std::size_t depth = ctx->stack_size();
                if (r.chance(1, 4) && nbursts < 6) {
                    ++nbursts;
                    wses.reenter();
                    unsigned kind = static_cast<unsigned>(r.below(5));
                    // prefix of the layer the cursor is in, and of the layer above
                    std::size_t lp = (depth - 1) * 8;
                    if (lp > cur.size()) { lp = cur.size() / 8 * 8; }
                    std::string layer_prefix = cur.substr(0, lp);
                    std::string upper_prefix = lp >= 8 ? cur.substr(0, lp - 8) : std::string();
                    auto ins = [&](const std::string& k) {
                        if (model.count(k) != 0U) { return; }
                        if (yput(wses.tok, storage, k, "burst") == status::OK) { model[k] = "burst"; }
                    };
                    auto rem = [&](const std::string& k) {
                        if (yk::remove(wses.tok, storage, k) == status::OK) {
                            model.erase(k);
                            removed.insert(k);
                        }
                    };
                    std::size_t n = r.range(8, 40);
                    const char* kname = "";
                    if (kind == 0) {
                        kname = "fill-current-layer";
                        for (std::size_t i = 0; i < n; ++i) {
                            std::string k = layer_prefix;
                            std::size_t sl = r.range(1, 8);
                            for (std::size_t j = 0; j < sl; ++j) { k.push_back(static_cast<char>(kg.abyte())); }
                            ins(k);
                        }
                    } else if (kind == 1) {
                        kname = "fill-upper-layer";
                        for (std::size_t i = 0; i < n; ++i) {
                            std::string k = upper_prefix;
                            std::size_t sl = r.range(1, 8);
                            for (std::size_t j = 0; j < sl; ++j) { k.push_back(static_cast<char>(kg.abyte())); }
                            ins(k);
                        }
                    } else if (kind == 2) {
                        kname = "fill-both";
                        for (std::size_t i = 0; i < n; ++i) {
                            std::string k = (i % 2 == 0) ? layer_prefix : upper_prefix;
                            // near the link / near the current key: share most of the slice
                            std::string base = (i % 2 == 0) ? cur.substr(lp, std::min<std::size_t>(8, cur.size() - lp)) : (lp >= 8 ? cur.substr(lp - 8, 8) : std::string());
                            if (!base.empty()) { base.back() = static_cast<char>(static_cast<unsigned char>(base.back()) + static_cast<unsigned char>(r.range(1, 200))); }
                            if (r.chance(1, 2) && base.size() > 1) { base.resize(base.size() - 1); }
                            k += base;
                            if (k != cur) { ins(k); }
                        }
                    } else if (kind == 3) {
                        kname = "drain-current-layer-except-cursor";
                        std::vector<std::string> victims;
                        for (auto it = model.lower_bound(layer_prefix); it != model.end() && it->first.compare(0, lp, layer_prefix) == 0; ++it) {
                            if (it->first != cur && r.chance(3, 4)) { victims.push_back(it->first); }
                        }
                        for (auto& k : victims) { rem(k); }
                    } else {
                        kname = "remove-produced-and-refill";
                        for (auto& k : produced) {
                            if (k != cur && r.chance(1, 2)) { rem(k); }
                        }
                        for (std::size_t i = 0; i < n / 2; ++i) {
                            std::string k = layer_prefix;
                            std::size_t sl = r.range(1, 8);
                            for (std::size_t j = 0; j < sl; ++j) { k.push_back(static_cast<char>(kg.abyte())); }
                            ins(k);
                        }
                    }
                    wses.leave();
                    burst_log.push_back(JObj().str("kind", kname).str("at_key", hex(cur)).num("stack_depth", depth).done());
                    rep.count(std::string("bursts_") + kname);
                    rep.distinct(mix64(0xb0057, mix64(hash_bytes(kname), mix64(r2l ? 1 : 0, std::min<std::size_t>(depth, 4)))));
                }
                rc = yk::iscan_next(ctx, v);
            }
            if (ctx != nullptr) { yk::iscan_close(ctx); }
            rep.eval();
            rep.count("paused_cursors");
            if (bad) { continue; }
            if (rc != status::OK_SCAN_END) {
                rep.violation("iscan:paused:status", "cursor ended with " + st(rc), "{}");
                continue;
            }
            // every key that was present for the whole iteration must have been produced
            std::set<std::string> pset(produced.begin(), produced.end());
            for (auto& [k, val] : initial) {
                if (removed.count(k) != 0U) { continue; }
                if (pset.count(k) == 0U) {
                    rep.violation(std::string("iscan:paused:") + (r2l ? "backward" : "forward") + ":present-key-missing",
                                  "a key that was present during the whole (paused) iteration was not produced",
                                  JObj().str("key", hex(k)).num("tree", t).str("family", TreeGen::family_name(family)).num("produced", produced.size()).num("initial_keys", initial.size()).raw("bursts", jarr(burst_log)).done());
                    break;
                }
            }
            if (nbursts != 0) { rep.count("paused_cursors_with_bursts"); }
        }
        // the tree must still be coherent after the interleaved writes
        ses.leave();
        coherence_check(rep, storage, model, true, nullptr, false);
        yk::delete_storage(storage);
    }
    yk::fin();
    drain_alloc_problems(rep);
    alloc::Counters c = alloc::counters();
    if (c.watched_live != 0) {
        rep.violation("iscan:cursor-context-leak", "iscan_context objects still allocated after all cursors were closed", JObj().num("live", c.watched_live).done());
    }
    rep.count("cursor_contexts_allocated", c.watched_allocs);
    if (rep.get("nonempty_cursors") == 0) { rep.inconclusive("no cursor with non-empty expected output"); }
    return rep.finish();
}
