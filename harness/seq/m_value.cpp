// C15 (quiescent half): values round-trip with exact bytes, length and
// alignment through get / scan / iscan / created_value_ptr; inline value types
// are stored and returned by value.
#include "treegen.h"

using namespace vf;

namespace {

struct alignas(32) Over {
    uint64_t a, b, c, d;
};

std::string pattern(std::size_t len, uint64_t id) {
    std::string v(len, '\0');
    for (std::size_t i = 0; i < len; ++i) { v[i] = static_cast<char>((id * 131 + i * 7 + (i >> 8)) & 0xff); }
    return v;
}

} // namespace

int run_value(const Args& a) {
    uint64_t seed = a.num("seed", 1);
    bool big = a.num("big", 0) != 0;
    uint64_t chains = a.num("chains", 200);
    Report rep(a.str("prop", "C15"), "seq_value", seed);
    // C09 uses this workload for progress only (overwrites of inline and out-of-line values must return and leave no lock behind)
    rep.mute_result_oracles(a.num("progress_only", 0) != 0);
    rep.set_rule("grid: value lengths {0..130, 2^k-1, 2^k, 2^k+1 for k<=16 (k<=22 with --big)} x alignments {1,2,4,...,4096} x API {get, scan, iscan, created_value_ptr}; "
                 "typed puts (uint64_t, over-aligned struct with default size/alignment), inline void*/uintptr_t values; random overwrite chains changing length, alignment and kind. "
                 "Each cell: bytes, length, address alignment, created_value_ptr == address returned by get/scan/iscan, and the pointer lies at offset max(align,8) of a live block of "
                 "size len+max(align,8) in the allocation registry. distinct_nontrivial = distinct (length class, alignment, API) cells checked");
    yk::init();
    Rng r(seed);
    std::string storage = "val";
    yk::create_storage(storage);
    Session ses;
    ses.reenter();
    std::vector<std::size_t> lens;
    for (std::size_t l = 0; l <= 130; ++l) { lens.push_back(l); }
    for (std::size_t k = 8; k <= (big ? 22U : 16U); ++k) {
        lens.push_back((std::size_t{1} << k) - 1);
        lens.push_back(std::size_t{1} << k);
        lens.push_back((std::size_t{1} << k) + 1);
    }
    std::vector<std::size_t> aligns;
    for (std::size_t al = 1; al <= 4096; al <<= 1) { aligns.push_back(al); }
    uint64_t id = seed * 1000003;
    auto len_class = [](std::size_t l) -> uint64_t { return l <= 130 ? l : 131 + (63 - __builtin_clzll(l)) * 3 + (l & 1 ? 1 : 0) + ((l & (l - 1)) == 0 ? 2 : 0); };

    auto check_cell = [&](const std::string& key, const std::string& want, std::size_t al, char* created, const char* how) {
        // get
        std::pair<char*, std::size_t> o;
        status g = yget(storage, key, o);
        auto bad = [&](const std::string& k, const std::string& what) {
            rep.violation(k, what, JObj().num("len", want.size()).num("align", al).str("after", how).done());
        };
        if (g != status::OK) {
            bad("value:get-status", "get after put returned " + st(g));
            return;
        }
        if (o.second != want.size()) { bad("value:get-length", "length differs: got " + std::to_string(o.second)); }
        if (o.first == nullptr || (want.size() != 0U && memcmp(o.first, want.data(), want.size()) != 0)) { bad("value:get-bytes", "bytes differ"); }
        if (reinterpret_cast<uintptr_t>(o.first) % al != 0) { bad("value:get-misaligned", "address not aligned to the requested alignment"); }
        if (created != o.first) { bad("value:created_value_ptr-differs-from-get", "created_value_ptr does not designate the stored copy"); }
        alloc::Block b{};
        std::size_t eff = std::max<std::size_t>(al, 8);
        if (alloc::mode() != alloc::Mode::FULL) {
            // no registry (valgrind run)
        } else if (!alloc::resolve(o.first, b)) {
            bad("value:pointer-not-in-live-block", "returned pointer is not inside a live library block");
        } else {
            if (b.size != want.size() + eff) { bad("value:block-size", "allocated size " + std::to_string(b.size) + " != len+max(align,8)"); }
            if (reinterpret_cast<const char*>(b.base) + eff != o.first) { bad("value:body-offset", "body is not at offset max(align,8)"); }
        }
        rep.distinct(mix64(len_class(want.size()), mix64(al, 1)));
        // scan
        std::vector<ScanTuple> tl;
        status s = yk::scan<char>(storage, key, scan_endpoint::INCLUSIVE, key, scan_endpoint::INCLUSIVE, tl, nullptr, 0, false);
        if (s != status::OK || tl.size() != 1 || std::get<1>(tl[0]) != o.first || std::get<2>(tl[0]) != want.size()) {
            bad("value:scan-differs-from-get", "scan returned a different pointer/length than get");
        }
        rep.distinct(mix64(len_class(want.size()), mix64(al, 2)));
        // iscan
        std::vector<CursorItem> items;
        status c = cursor_collect(storage, key, scan_endpoint::INCLUSIVE, key, scan_endpoint::INCLUSIVE, r.chance(1, 2), items);
        if (c != status::OK_SCAN_END || items.size() != 1 || items[0].value != o.first) { bad("value:iscan-differs-from-get", "cursor returned a different pointer than get"); }
        rep.distinct(mix64(len_class(want.size()), mix64(al, 3)));
        rep.eval(3); // get, scan, iscan
        rep.count("cells");
    };

    // ---- grid
    for (std::size_t len : lens) {
        for (std::size_t al : aligns) {
            if (len > 70000 && al != 1 && al != 64 && al != 4096) { continue; }
            std::string key = "k" + std::to_string(len % 7);
            std::string v = pattern(len, ++id);
            char* created = nullptr;
            status s = yput(ses.tok, storage, key, v, false, al, &created);
            if (s != status::OK) {
                rep.violation("value:put-status", "put failed", JObj().str("got", st(s)).done());
                continue;
            }
            check_cell(key, v, al, created, "put");
            if (rep.get("cells") <= 2) { rep.sample(JObj().num("len", len).num("align", al).str("api", "get+scan+iscan+created_value_ptr").done()); }
        }
        if (len % 16 == 0) { ses.reenter(); }
    }
    // ---- typed puts with default size/alignment
    {
        // note: uint64_t is uintptr_t on this platform and therefore an *inline* type; use double
        double u = 1234.5;
        double* cu = nullptr;
        status s = yk::put<double>(ses.tok, storage, "typed-f64", &u, sizeof(u), &cu);
        std::pair<double*, std::size_t> o{};
        status g = yk::get<double>(storage, "typed-f64", o);
        if (s != status::OK || g != status::OK || o.second != 8 || o.first == nullptr || *o.first != u || o.first != cu || reinterpret_cast<uintptr_t>(o.first) % alignof(double) != 0) {
            rep.violation("value:typed-f64", "double value with default size/alignment did not round-trip", "{}");
        }
        Over ov{1, 2, 3, 4};
        Over* co = nullptr;
        s = yk::put<Over>(ses.tok, storage, "typed-over", &ov, sizeof(ov), &co);
        std::pair<Over*, std::size_t> oo{};
        g = yk::get<Over>(storage, "typed-over", oo);
        if (s != status::OK || g != status::OK || oo.second != sizeof(Over) || oo.first != co || reinterpret_cast<uintptr_t>(oo.first) % alignof(Over) != 0 || oo.first->c != 3) {
            rep.violation("value:typed-overaligned", "over-aligned struct with default size/alignment did not round-trip", "{}");
        }
        rep.count("typed_cells", 2);
        rep.distinct(mix64(0x7e, 1));
        rep.distinct(mix64(0x7e, 2));
    }
    // ---- inline values: stored and returned by value
    {
        static int target1, target2;
        std::vector<uintptr_t> vals = {reinterpret_cast<uintptr_t>(&target1), reinterpret_cast<uintptr_t>(&target2), 1, 8, 0x00007fffffffffffULL, 0x123456789abcULL, 0};
        for (std::size_t i = 0; i < vals.size(); ++i) {
            std::string key = "inl" + std::to_string(i);
            alloc::Counters c0 = alloc::counters();
            status s;
            if (i % 2 == 0) {
                void* pv = reinterpret_cast<void*>(vals[i]); // NOLINT
                s = yk::put<void*>(ses.tok, storage, key, &pv);
            } else {
                uintptr_t uv = vals[i];
                s = yk::put<uintptr_t>(ses.tok, storage, key, &uv);
            }
            alloc::Counters c1 = alloc::counters();
            std::pair<char*, std::size_t> o;
            status g = yget(storage, key, o);
            bool ok = s == status::OK && g == status::OK && reinterpret_cast<uintptr_t>(o.first) == vals[i] && o.second == sizeof(uintptr_t);
            if (!ok) {
                rep.violation(vals[i] == 0 ? "value:inline-zero-not-returned-by-value" : "value:inline-not-returned-by-value", "inline (pointer-typed) value did not come back by value",
                              JObj().num("value", vals[i]).str("put", st(s)).str("get", st(g)).num("got", reinterpret_cast<uintptr_t>(o.first)).num("len", o.second).done());
            }
            if (alloc::mode() == alloc::Mode::FULL && c1.value_allocs != c0.value_allocs) {
                rep.violation("value:inline-value-allocated", "an inline value caused a heap allocation", JObj().num("value", vals[i]).done());
            }
            std::vector<ScanTuple> tl;
            yk::scan<char>(storage, key, scan_endpoint::INCLUSIVE, key, scan_endpoint::INCLUSIVE, tl, nullptr, 0, false);
            if (tl.size() != 1 || reinterpret_cast<uintptr_t>(std::get<1>(tl[0])) != vals[i] || std::get<2>(tl[0]) != sizeof(uintptr_t)) {
                rep.violation(vals[i] == 0 ? "value:inline-zero-scan" : "value:inline-scan", "scan did not return the inline value by value", JObj().num("value", vals[i]).num("n", tl.size()).done());
            }
            // heap value -> inline value -> heap value on one key: the replaced heap block must be released
            {
                std::string hk = "mixed" + std::to_string(i);
                alloc::Counters m0 = alloc::counters();
                yput(ses.tok, storage, hk, pattern(100 + i, ++id), false, 16);
                uintptr_t iv = vals[i] | 0x100;
                yk::put<uintptr_t>(ses.tok, storage, hk, &iv);
                std::pair<char*, std::size_t> mo;
                if (yget(storage, hk, mo) != status::OK || reinterpret_cast<uintptr_t>(mo.first) != iv) { rep.violation("value:inline-over-heap", "inline value written over a heap value is not returned by value", "{}"); }
                yput(ses.tok, storage, hk, pattern(50, ++id), false, 8);
                yk::remove(ses.tok, storage, hk);
                rep.count("heap_inline_heap_chains");
                (void) m0;
            }
            // overwrite inline by inline, then remove
            uintptr_t nv = vals[i] ^ 0x10;
            yk::put<uintptr_t>(ses.tok, storage, key, &nv);
            yget(storage, key, o);
            if (reinterpret_cast<uintptr_t>(o.first) != nv) { rep.violation("value:inline-overwrite", "inline overwrite not visible", "{}"); }
            if (yk::remove(ses.tok, storage, key) != status::OK) { rep.violation("value:inline-remove", "remove of inline value failed", "{}"); }
            rep.count("inline_cells");
            rep.distinct(mix64(0x111e, i));
            rep.eval();
        }
    }
    // ---- overwrite chains
    for (uint64_t c = 0; c < chains; ++c) {
        std::string key = "chain" + std::to_string(c % 5);
        std::size_t steps = r.range(2, 8);
        for (std::size_t s = 0; s < steps; ++s) {
            std::size_t len = r.chance(1, 10) ? r.range(1000, 70000) : lens[r.below(131)];
            std::size_t al = aligns[r.below(aligns.size())];
            std::string v = pattern(len, ++id);
            char* created = nullptr;
            status ps = yput(ses.tok, storage, key, v, false, al, &created);
            if (ps != status::OK) {
                rep.violation("value:put-status", "overwrite failed", JObj().str("got", st(ps)).done());
                break;
            }
            check_cell(key, v, al, created, "overwrite");
            rep.count("overwrites");
        }
        if (r.chance(1, 3)) { yk::remove(ses.tok, storage, key); }
        if (c % 8 == 0) { ses.reenter(); }
    }
    ses.leave();
    yk::delete_storage(storage);
    yk::fin();
    drain_alloc_problems(rep);
    if (alloc::counters().live_blocks != 0) { rep.violation("value:blocks-live-after-fin", "blocks live after fin", JObj().num("live", alloc::counters().live_blocks).done()); }
    return rep.finish();
}
