// C20: mem_usage() vs an independent census (walker + allocation registry).
#include "treegen.h"

using namespace vf;

namespace {

bool compare_snapshot(Report& rep, const std::string& storage, yk::tree_instance* ti, const yk::memory_usage_stack& mu, const WalkResult& wr, JObj ctx) {
    (void) storage;
    (void) ti;
    bool ok = true;
    if (mu.size() != wr.census.size()) {
        rep.violation("memusage:depth-differs", "number of entries differs from the tree depth (next-layer roots one level below their leaf)",
                      ctx.num("reported_levels", mu.size()).num("census_levels", wr.census.size()).done());
        return false;
    }
    for (std::size_t l = 0; l < mu.size(); ++l) {
        auto [nodes, used, reserved] = mu[l];
        const LevelCensus& c = wr.census[l];
        JObj d = ctx;
        d.num("level", l).num("reported_nodes", nodes).num("census_nodes", c.nodes).num("reported_reserved", reserved).num("census_reserved", c.reserved).num("reported_used", used);
        if (nodes != c.nodes) {
            rep.violation("memusage:node-count-differs", "node count at a level differs from the census", d.done());
            ok = false;
        } else if (reserved != c.reserved) {
            rep.violation("memusage:reserved-differs", "reserved bytes differ from node sizes + allocated value sizes", d.done());
            ok = false;
        } else if (used > reserved) {
            rep.violation("memusage:used-exceeds-reserved", "used bytes exceed reserved bytes", d.done());
            ok = false;
        }
    }
    return ok;
}

} // namespace

int run_memusage(const Args& a) {
    uint64_t seed = a.num("seed", 1);
    uint64_t trees = a.num("trees", 100);
    uint64_t snaps = a.num("snaps", 20);
    Report rep(a.str("prop", "C20"), "seq_memusage", seed);
    rep.set_rule("per tree (7 shape families; values 0..4KiB with alignments 1..4096, inline void* values): mem_usage(name) compared with a census by the structural walker "
                 "(nodes per level, reserved = node sizes + allocated block sizes from the allocation registry); used<=reserved; snapshot pairs around an insert/remove that "
                 "changes no node count: used strictly follows the slot count at the affected level and is unchanged elsewhere. "
                 "distinct_nontrivial = distinct (levels, layers, has-inline, has-big-values, depth) classes of snapshots");
    yk::init();
    Rng r(seed);
    KeyGenCfg cfg;
    cfg.long_key_permille = 2;
    KeyGen kg(r, cfg);
    if (!yk::mem_usage("no-such-storage").empty()) { rep.violation("memusage:unknown-storage-nonempty", "mem_usage of an unknown storage is not empty", "{}"); }
    for (uint64_t t = 0; t < trees && rep.violations() < 30; ++t) {
        std::string storage = "mu";
        yk::create_storage(storage);
        yk::tree_instance* ti = nullptr;
        yk::find_storage(storage, &ti);
        Session ses;
        ses.reenter();
        Model model;
        TreeGen tg(r, kg, 300, r.chance(1, 3) ? 4096 : 40);
        int family = static_cast<int>(t % 8);
        tg.build(ses.tok, storage, model, family);
        bool has_inline = false;
        bool has_big = tg.value_max > 1000;
        if (r.chance(1, 2)) {
            // a few inline values
            for (int i = 0; i < 5; ++i) {
                std::string k = kg.fresh();
                if (model.count(k) != 0U) { continue; }
                void* pv = reinterpret_cast<void*>(0x1000 + i * 8); // NOLINT
                if (yk::put<void*>(ses.tok, storage, k, &pv) == status::OK) {
                    model[k] = std::string(reinterpret_cast<char*>(&pv), 8); // NOLINT
                    has_inline = true;
                }
            }
        }
        if (r.chance(1, 3) && !model.empty()) {
            // inline-dense: every value of the tree (any shape) becomes an inline pointer value, so whole nodes hold
            // nothing but entries with no allocated block (used must still not exceed reserved)
            uintptr_t n = 0;
            for (auto& [k, v] : model) {
                void* pv = reinterpret_cast<void*>(0x2000 + (n++) * 8); // NOLINT
                if (yk::put<void*>(ses.tok, storage, k, &pv) == status::OK) { v = std::string(reinterpret_cast<char*>(&pv), 8); } // NOLINT
            }
            has_inline = true;
            rep.count("inline_dense_trees");
        }
        rep.count("trees");
        for (uint64_t s = 0; s < snaps; ++s) {
            Walker w(true);
            WalkResult w0 = w.walk(ti);
            for (auto& [k, d] : w0.errors) { rep.violation("walker:" + k, "structure", d); }
            auto m0 = yk::mem_usage(storage);
            rep.eval();
            JObj ctx;
            ctx.num("tree", t).str("family", TreeGen::family_name(family)).num("keys", model.size()).num("snapshot", s);
            compare_snapshot(rep, storage, ti, m0, w0, ctx);
            rep.count("snapshots");
            rep.maxc("max_levels", m0.size());
            rep.maxc("max_layers", w0.n_layers);
            rep.distinct(mix64(std::min<std::size_t>(m0.size(), 6), mix64(std::min<std::size_t>(w0.n_layers, 4), mix64(has_inline ? 1 : 0, mix64(has_big ? 1 : 0, w0.max_depth)))));
            if (t < 2 && s == 0) {
                std::vector<std::string> lv;
                for (auto& [n, u, rs] : m0) { lv.push_back(JObj().num("nodes", n).num("used", u).num("reserved", rs).done()); }
                rep.sample(JObj().str("family", TreeGen::family_name(family)).num("keys", model.size()).raw("mem_usage", jarr(lv)).done());
            }
            // one mutation, then the monotonicity pair
            bool do_insert = model.empty() || r.chance(3, 5);
            std::string k;
            std::size_t vlen = 0;
            if (do_insert) {
                std::vector<std::string> pool;
                if (!model.empty()) {
                    auto it = model.begin();
                    std::advance(it, r.below(model.size()));
                    pool.push_back(it->first);
                }
                k = kg.next(pool);
                if (model.count(k) != 0U) { continue; }
                std::string v = kg.value(tg.value_max);
                vlen = v.size();
                static const std::size_t aligns[] = {1, 8, 64, 512, 4096};
                if (yput(ses.tok, storage, k, v, false, aligns[r.below(5)]) != status::OK) { continue; }
                model[k] = v;
            } else {
                auto it = model.begin();
                std::advance(it, r.below(model.size()));
                k = it->first;
                if (yk::remove(ses.tok, storage, k) != status::OK) { continue; }
                model.erase(k);
            }
            WalkResult w1 = w.walk(ti);
            auto m1 = yk::mem_usage(storage);
            bool same_nodes = w0.census.size() == w1.census.size() && m0.size() == m1.size() && m0.size() == w0.census.size();
            for (std::size_t l = 0; same_nodes && l < w0.census.size(); ++l) { same_nodes = w0.census[l].nodes == w1.census[l].nodes; }
            if (!same_nodes) {
                rep.count("pairs_with_node_count_change");
                continue;
            }
            rep.count("monotonicity_pairs");
            for (std::size_t l = 0; l < m0.size(); ++l) {
                std::size_t u0 = std::get<1>(m0[l]);
                std::size_t u1 = std::get<1>(m1[l]);
                std::size_t s0 = w0.census[l].slots;
                std::size_t s1 = w1.census[l].slots;
                bool bad = (s1 > s0 && u1 <= u0) || (s1 < s0 && u1 >= u0) || (s1 == s0 && u1 != u0);
                if (bad) {
                    rep.violation("memusage:used-not-monotone-in-slots", "used bytes do not follow the number of occupied slots",
                                  JObj().num("level", l).num("slots_before", s0).num("slots_after", s1).num("used_before", u0).num("used_after", u1).boolean("insert", do_insert).num("value_len", vlen).done());
                }
            }
            if (s % 8 == 0) { ses.reenter(); }
        }
        ses.leave();
        yk::delete_storage(storage);
    }
    yk::fin();
    drain_alloc_problems(rep);
    if (rep.get("monotonicity_pairs") == 0) { rep.inconclusive("no monotonicity pair"); }
    return rep.finish();
}
