// Tree content generators shared by the sequential harnesses: fill a storage
// (and the model) with key sets that realise the shapes the properties quantify
// over: multi-node, multi-level, multi-layer, link-only borders, after-delete shapes.
#pragma once

#include "keygen.h"
#include "ykw.h"

namespace vf {

struct TreeGen {
    Rng& r;
    KeyGen& kg;
    std::size_t max_keys;
    std::size_t value_max;

    TreeGen(Rng& rr, KeyGen& k, std::size_t mk = 600, std::size_t vm = 40) : r(rr), kg(k), max_keys(mk), value_max(vm) {}

    static const char* family_name(int f) {
        static const char* n[] = {"random", "dense", "multilayer", "linkonly", "tiny", "mixed-after-delete", "ff-heavy", "prefix-dense"};
        return n[f % 8];
    }

    std::vector<std::string> keys_for(int family) {
        std::vector<std::string> ks;
        switch (family % 8) {
            case 0: {
                std::size_t n = r.below(std::min<std::size_t>(max_keys, 120) + 1);
                for (std::size_t i = 0; i < n; ++i) { ks.push_back(kg.next(ks)); }
                break;
            }
            case 1: {
                static const std::size_t pl[] = {0, 1, 3, 7, 8, 9, 16};
                std::size_t n = r.chance(1, 4) ? r.range(230, max_keys) : r.range(10, 60);
                ks = kg.dense_family(std::min(n, max_keys), pl[r.below(7)]);
                break;
            }
            case 2: {
                std::size_t np = r.range(1, 4);
                for (std::size_t p = 0; p < np; ++p) {
                    auto fam = kg.dense_family(r.range(1, 40), r.chance(1, 2) ? 8 : 16);
                    ks.insert(ks.end(), fam.begin(), fam.end());
                    // the prefix itself and its 8-byte cut as keys too
                    if (r.chance(1, 2)) { ks.push_back(fam[0].substr(0, 8)); }
                    if (r.chance(1, 3)) { ks.push_back(fam[0].substr(0, fam[0].size() - 1)); }
                }
                std::size_t n = r.below(20);
                for (std::size_t i = 0; i < n; ++i) { ks.push_back(kg.next(ks)); }
                break;
            }
            case 3: {
                // every key shares one 8 (or 16) byte prefix: upper borders hold only links
                std::size_t plen = r.chance(2, 3) ? 8 : 16;
                std::string p(plen, static_cast<char>(kg.abyte()));
                std::size_t n = r.range(1, 40);
                for (std::size_t i = 0; i < n; ++i) {
                    std::string k = p;
                    std::size_t sl = r.range(1, 10);
                    for (std::size_t j = 0; j < sl; ++j) { k.push_back(static_cast<char>(kg.abyte())); }
                    ks.push_back(k);
                }
                break;
            }
            case 4: {
                std::size_t n = r.below(4);
                for (std::size_t i = 0; i < n; ++i) { ks.push_back(kg.next(ks)); }
                break;
            }
            case 5: {
                ks = kg.dense_family(r.range(20, std::min<std::size_t>(max_keys, 280)), r.chance(1, 2) ? 2 : 8);
                std::size_t n = r.below(40);
                for (std::size_t i = 0; i < n; ++i) { ks.push_back(kg.next(ks)); }
                break;
            }
            case 7: {
                // many variable-length keys over a tiny alphabet inside ONE layer: keys that are proper prefixes of
                // each other become separators of borders and interiors (several interior levels when n is large)
                static const char alpha[][4] = {{'A', 'B', '\0', '\xff'}, {'\0', '\x01', '\x7f', '\x80'}, {'k', 'E', 'A', 'z'}};
                const char* al = alpha[r.below(3)];
                std::size_t asz = r.range(2, 4);
                std::size_t n = r.chance(1, 2) ? r.range(130, std::min<std::size_t>(max_keys, 600)) : r.range(20, 130);
                std::string lp = r.chance(1, 3) ? std::string(8 * r.range(1, 2), static_cast<char>(kg.abyte())) : std::string();
                for (std::size_t i = 0; i < n * 2 && ks.size() < n; ++i) {
                    std::string k = lp;
                    std::size_t l = r.range(1, 8);
                    for (std::size_t j = 0; j < l; ++j) { k.push_back(al[r.below(asz)]); }
                    ks.push_back(k);
                }
                std::sort(ks.begin(), ks.end());
                ks.erase(std::unique(ks.begin(), ks.end()), ks.end());
                break;
            }
            default: {
                // keys made of 0xff slices with tails (right edge of every layer)
                std::size_t n = r.range(1, 30);
                for (std::size_t i = 0; i < n; ++i) {
                    std::string k;
                    if (r.chance(1, 2)) { k = std::string(8, static_cast<char>('A' + r.below(3))); } // ff-slice below another layer
                    k += std::string(8 * r.below(3), '\xff');
                    std::size_t sl = r.below(10);
                    for (std::size_t j = 0; j < sl; ++j) { k.push_back(static_cast<char>(r.chance(1, 2) ? 0xff : kg.abyte())); }
                    ks.push_back(k);
                }
                break;
            }
        }
        return ks;
    }

    // fills storage + model; returns keys removed again (family 5) for evidence
    void build(Token tok, std::string_view storage, Model& model, int family) {
        auto ks = keys_for(family);
        // insertion order: ascending, descending or shuffled
        switch (r.below(3)) {
            case 0: std::sort(ks.begin(), ks.end()); break;
            case 1: std::sort(ks.rbegin(), ks.rend()); break;
            default:
                for (std::size_t i = ks.size(); i > 1; --i) { std::swap(ks[i - 1], ks[r.below(i)]); }
                break;
        }
        for (auto& k : ks) {
            std::string v = kg.value(value_max);
            static const std::size_t aligns[] = {1, 1, 8, 16, 64};
            status s = yput(tok, storage, k, v, false, aligns[r.below(5)]);
            if (s == status::OK) { model[k] = v; }
        }
        if (family % 8 == 5 && !model.empty()) {
            // remove a contiguous run and a random subset: unlinks borders, collapses interiors
            std::vector<std::string> all;
            for (auto& kv : model) { all.push_back(kv.first); }
            std::size_t a = r.below(all.size());
            std::size_t b = std::min(all.size(), a + r.below(all.size() - a + 1));
            for (std::size_t i = a; i < b; ++i) {
                if (yk::remove(tok, storage, all[i]) == status::OK) { model.erase(all[i]); }
            }
            for (auto& k : all) {
                if (r.chance(1, 4) && model.count(k) != 0U) {
                    if (yk::remove(tok, storage, k) == status::OK) { model.erase(k); }
                }
            }
        }
    }
};

} // namespace vf
