// C03: quiescent range scan vs the ordered-map model, over adversarial endpoints.
#include "treegen.h"

using namespace vf;

namespace {

struct EndpointGen {
    Rng& r;
    KeyGen& kg;
    const Model& m;
    std::vector<std::string> keys;
    EndpointGen(Rng& rr, KeyGen& k, const Model& mm) : r(rr), kg(k), m(mm) {
        for (auto& kv : m) { keys.push_back(kv.first); }
    }
    // returns key and a class label
    std::pair<std::string, const char*> next() {
        if (keys.empty() || r.chance(1, 8)) { return {kg.fresh(), "random"}; }
        const std::string& k = keys[r.below(keys.size())];
        switch (r.below(9)) {
            case 0: return {k, "stored"};
            case 1: return {k.substr(0, r.below(k.size() + 1)), "prefix"};
            case 2: return {k + std::string(1, '\0'), "successor"};
            case 3: return {k.substr(0, k.size() / 8 * 8), "slice-cut"};
            case 4: {
                std::string p = k;
                if (!p.empty()) {
                    auto c = static_cast<unsigned char>(p.back());
                    if (c == 0) {
                        p.pop_back();
                    } else {
                        p.back() = static_cast<char>(c - 1);
                        p += std::string(r.below(3), '\xff');
                    }
                }
                return {p, "predecessor"};
            }
            case 5: {
                std::string p = k.substr(0, std::min<std::size_t>(k.size(), 8 * r.range(1, 3)));
                p += std::string(1, static_cast<char>(kg.abyte()));
                return {p, "inside-or-beside-sublayer"};
            }
            case 6: {
                // > 255 bytes: exercises the 8-bit length truncation in the initial descent
                std::string p = k;
                p.resize(r.range(256, 300), static_cast<char>(r.chance(1, 2) ? 0 : 0xff));
                return {p, "over-255"};
            }
            case 7: return {kg.derive(k), "derived"};
            default: return {k, "stored"};
        }
    }
};

} // namespace

int run_scan(const Args& a) {
    uint64_t seed = a.num("seed", 1);
    uint64_t trees = a.num("trees", 100);
    uint64_t scans = a.num("scans", 100);
    Report rep(a.str("prop", "C03"), "seq_scan", seed);
    rep.set_rule("trees from 7 shape families (random, dense multi-level, multi-layer, link-only, tiny, after-delete, 0xff-heavy); per tree "
                 "N scans with endpoints drawn from stored keys and their prefixes/successors/predecessors/slice cuts/over-255-byte "
                 "extensions, all 3x3 endpoint kinds, max_size in {0,1,2,n-1,n,n+1}, right_to_left legal and illegal; result compared "
                 "tuple-by-tuple with std::map. distinct_nontrivial = distinct (l_class,r_class,l_end,r_end,limit class,direction,shape class) cells "
                 "with a non-empty expected result");
    yk::init();
    Rng r(seed);
    KeyGenCfg cfg;
    KeyGen kg(r, cfg);
    const scan_endpoint eps[3] = {scan_endpoint::EXCLUSIVE, scan_endpoint::INCLUSIVE, scan_endpoint::INF};
    for (uint64_t t = 0; t < trees; ++t) {
        std::string storage = "sc";
        yk::create_storage(storage);
        Session ses;
        ses.reenter();
        Model model;
        TreeGen tg(r, kg, a.num("maxkeys", 300));
        int family = static_cast<int>(t % 8);
        tg.build(ses.tok, storage, model, family);
        Walker w(true);
        yk::tree_instance* ti = nullptr;
        yk::find_storage(storage, &ti);
        WalkResult wr = w.walk(ti);
        uint64_t shape_class = mix64(wr.max_depth, std::min<std::size_t>(wr.n_layers, 3));
        rep.count("trees");
        rep.maxc("max_depth", wr.max_depth);
        rep.maxc("max_layers", wr.n_layers);
        EndpointGen eg(r, kg, model);
        for (uint64_t s = 0; s < scans && rep.violations() < 20; ++s) {
            auto [lk, lclass] = eg.next();
            auto [rk, rclass] = eg.next();
            scan_endpoint le = eps[r.below(3)];
            scan_endpoint re = eps[r.below(3)];
            if (r.chance(2, 3) && le != scan_endpoint::INF && re != scan_endpoint::INF && lk > rk) { std::swap(lk, rk); }
            bool r2l = r.chance(1, 6);
            std::size_t n_expected_full = model_range(model, lk, le, rk, re).size();
            std::size_t max_size = 0;
            switch (r.below(7)) {
                case 0: max_size = 1; break;
                case 1: max_size = 2; break;
                case 2: max_size = n_expected_full > 0 ? n_expected_full - 1 : 0; break;
                case 3: max_size = n_expected_full; break;
                case 4: max_size = n_expected_full + 1; break;
                default: max_size = 0; break;
            }
            if (r2l && r.chance(3, 4)) {
                max_size = 1;
                if (r.chance(3, 4)) { re = scan_endpoint::INF; }
            }
            bool null_l = r.chance(1, 60);
            std::string_view lsv = null_l ? std::string_view{} : std::string_view{lk};
            std::string_view rsv{rk};
            if (null_l) { lk.clear(); }
            bool unknown_storage = r.chance(1, 80);
            std::vector<ScanTuple> tl;
            status rc = yk::scan<char>(unknown_storage ? std::string_view{"no-such-storage"} : std::string_view{storage}, lsv, le, rsv, re, tl, nullptr, max_size, r2l);
            rep.eval();
            auto describe = [&]() {
                JObj d;
                d.str("l_key", hex(lk)).str("l_end", ep(le)).str("r_key", hex(rk)).str("r_end", ep(re)).num("max_size", max_size).boolean("right_to_left", r2l);
                d.str("l_class", lclass).str("r_class", rclass).str("family", TreeGen::family_name(family)).num("tree", t).num("keys", model.size());
                return d;
            };
            // expected status
            bool bad = model_range_is_bad(lsv, le, rsv, re) || (r2l && (re != scan_endpoint::INF || max_size != 1));
            if (bad && unknown_storage) {
                // both rules apply; the documentation does not order them
                if (rc != status::ERR_BAD_USAGE && rc != status::WARN_STORAGE_NOT_EXIST) {
                    rep.violation("scan:bad-usage-and-unknown-storage-status", "neither ERR_BAD_USAGE nor WARN_STORAGE_NOT_EXIST", describe().str("got", st(rc)).done());
                }
                continue;
            }
            if (bad) {
                rep.count("bad_usage_cases");
                if (rc != status::ERR_BAD_USAGE) {
                    rep.violation("scan:bad-usage-not-rejected", "documented invalid arguments did not return ERR_BAD_USAGE", describe().str("got", st(rc)).done());
                }
                continue;
            }
            if (unknown_storage) {
                if (rc != status::WARN_STORAGE_NOT_EXIST) {
                    rep.violation("scan:unknown-storage-status", "scan of a missing storage", describe().str("got", st(rc)).done());
                }
                rep.count("unknown_storage_cases");
                continue;
            }
            if (rc == status::ERR_BAD_USAGE) {
                rep.violation("scan:valid-arguments-rejected", "ERR_BAD_USAGE for a documented-valid argument combination", describe().done());
                continue;
            }
            if (rc != status::OK && !(rc == status::OK_ROOT_IS_NULL && model.empty())) {
                rep.violation("scan:status", "unexpected status", describe().str("got", st(rc)).done());
                continue;
            }
            auto want = model_range(model, lk, le, rk, re);
            if (r2l) {
                // max_size == 1: the greatest entry
                if (!want.empty()) { want = {want.back()}; }
            } else if (max_size != 0 && want.size() > max_size) {
                want.resize(max_size);
            }
            bool same = want.size() == tl.size();
            std::size_t diff_at = 0;
            for (std::size_t i = 0; same && i < tl.size(); ++i) {
                const auto& [k, p, l] = tl[i];
                if (k != want[i].first || l != want[i].second.size() || (l != 0 && (p == nullptr || memcmp(p, want[i].second.data(), l) != 0))) {
                    same = false;
                    diff_at = i;
                }
            }
            if (!same) {
                JObj d = describe();
                d.num("got_n", tl.size()).num("want_n", want.size()).num("first_diff", diff_at);
                if (!tl.empty()) { d.str("got_first", hex(std::get<0>(tl.front()))); }
                if (!want.empty()) { d.str("want_first", hex(want.front().first)); }
                // stable classification of the failing input
                std::string key = "scan:result-differs";
                if (le == scan_endpoint::INF && !lk.empty()) {
                    key = "scan:result-differs:l_end=INF-with-nonempty-l_key";
                } else if (r2l) {
                    key = "scan:result-differs:right_to_left";
                } else if (max_size != 0) {
                    key = "scan:result-differs:limited";
                }
                rep.violation(key, "scan result differs from the interval content of the model", d.done());
                continue;
            }
            rep.count(std::string("scans_") + ep(le) + "_" + ep(re));
            if (r2l) { rep.count("scans_right_to_left"); }
            if (max_size != 0) { rep.count("scans_limited"); }
            if (le == scan_endpoint::INF && !lk.empty()) { rep.count("scans_inf_with_key"); }
            rep.count(std::string("lclass_") + lclass);
            if (!want.empty()) {
                uint64_t h = mix64(hash_bytes(lclass), hash_bytes(rclass));
                h = mix64(h, static_cast<uint64_t>(le) * 3 + static_cast<uint64_t>(re));
                h = mix64(h, (max_size == 0 ? 0 : (max_size >= n_expected_full ? 1 : 2)) * 2 + (r2l ? 1 : 0));
                h = mix64(h, shape_class);
                rep.distinct(h);
                rep.count("nonempty_results");
            }
            if (t < 2 && s < 2) { rep.sample(describe().num("result_n", tl.size()).done()); }
        }
        ses.leave();
        yk::delete_storage(storage);
    }
    yk::fin();
    drain_alloc_problems(rep);
    if (rep.get("nonempty_results") == 0) { rep.inconclusive("no scan with a non-empty expected result"); }
    return rep.finish();
}
