// C02 (+ the sequential half of C08): single-session differential testing of
// put / unique-put / get / remove against std::map, with the coherence oracle
// (walker + scan + backward cursor + point lookups) after every batch.
#include "treegen.h"

using namespace vf;

namespace {

struct Prog {
    Report& rep;
    Rng& r;
    KeyGen kg;
    std::string storage;
    Model model;
    Session ses;
    uint64_t ops{0};
    uint64_t prog_id;
    std::vector<std::string> trace; // compact op trace for the witness
    bool failed{false};
    alloc::Counters c0{};
    uint64_t structural_sig{0};

    Prog(Report& rp, Rng& rr, KeyGenCfg cfg, uint64_t id) : rep(rp), r(rr), kg(rr, cfg), prog_id(id) {}

    void witness(const std::string& key, const std::string& what, JObj d) {
        std::vector<std::string> tail;
        std::size_t from = trace.size() > 12 ? trace.size() - 12 : 0;
        for (std::size_t i = from; i < trace.size(); ++i) { tail.push_back(jesc(trace[i])); }
        d.num("program", prog_id).num("op_index", ops).raw("last_ops", jarr(tail));
        rep.violation(key, what, d.done());
        failed = true;
    }

    void do_put(const std::string& k, bool unique) {
        std::string v = kg.value(r.chance(1, 50) ? 5000 : 48);
        static const std::size_t aligns[] = {1, 1, 2, 8, 16, 64, 256};
        std::size_t al = aligns[r.below(7)];
        char* created = nullptr;
        status s = yput(ses.tok, storage, k, v, unique, al, &created);
        trace.push_back((unique ? "uput " : "put ") + hex(k, 20) + " len=" + std::to_string(v.size()) + " -> " + st(s));
        bool present = model.count(k) != 0U;
        status want = (unique && present) ? status::WARN_UNIQUE_RESTRICTION : status::OK;
        if (s != want) {
            witness(unique ? "map:uput-status" : "map:put-status", "status differs from the map model",
                    JObj().str("key", hex(k)).str("got", st(s)).str("want", st(want)).boolean("present", present));
            return;
        }
        if (s == status::OK) {
            model[k] = v;
            if (created == nullptr || (v.size() != 0 && memcmp(created, v.data(), v.size()) != 0)) {
                witness("map:created-value-ptr", "created_value_ptr does not designate the stored bytes", JObj().str("key", hex(k)));
            } else if ((reinterpret_cast<uintptr_t>(created) % al) != 0) {
                witness("map:created-value-misaligned", "stored copy not aligned as requested", JObj().num("align", al));
            }
        }
        rep.count(unique ? "op_uput" : "op_put");
    }

    void do_get(const std::string& k) {
        std::pair<char*, std::size_t> o;
        status s = yget(storage, k, o);
        trace.push_back("get " + hex(k, 20) + " -> " + st(s));
        auto it = model.find(k);
        if (it == model.end()) {
            if (s != status::WARN_NOT_EXIST) {
                witness("map:get-miss-status", "get of an absent key", JObj().str("key", hex(k)).str("got", st(s)));
            }
            rep.count("op_get_miss");
            return;
        }
        rep.count("op_get_hit");
        if (s != status::OK) {
            witness("map:get-hit-status", "get of a present key", JObj().str("key", hex(k)).str("got", st(s)));
            return;
        }
        if (o.second != it->second.size() || (o.second != 0 && (o.first == nullptr || memcmp(o.first, it->second.data(), o.second) != 0))) {
            witness("map:get-value", "returned bytes differ from the latest put",
                    JObj().str("key", hex(k)).num("got_len", o.second).num("want_len", it->second.size()));
        }
    }

    void do_remove(const std::string& k) {
        status s = yk::remove(ses.tok, storage, k);
        trace.push_back("remove " + hex(k, 20) + " -> " + st(s));
        bool present = model.count(k) != 0U;
        bool ok = present ? (s == status::OK) : (s == status::OK_NOT_FOUND || s == status::OK_ROOT_IS_NULL);
        if (!ok) {
            witness("map:remove-status", "remove status differs from the map model",
                    JObj().str("key", hex(k)).str("got", st(s)).boolean("present", present));
            return;
        }
        model.erase(k);
        rep.count(present ? "op_remove_hit" : "op_remove_miss");
    }

    std::string pick_key() {
        std::vector<std::string> pool;
        if (!model.empty() && r.chance(3, 5)) {
            // existing key (or a near variant)
            auto it = model.begin();
            std::advance(it, r.below(model.size()));
            if (r.chance(2, 3)) { return it->first; }
            return kg.derive(it->first);
        }
        return kg.fresh();
    }

    void checkpoint() {
        ses.leave(); // quiescent
        WalkResult wr;
        int p = coherence_check(rep, storage, model, true, &wr);
        drain_alloc_problems(rep);
        if (p != 0) { failed = true; }
        rep.count("checkpoints");
        rep.maxc("max_keys_live", model.size());
        structural_sig = mix64(structural_sig, wr.shape_signature());
        if (wr.max_depth >= 1 || wr.n_layers >= 2) { rep.distinct(wr.shape_signature()); }
        if (wr.root_deleted_empty) { rep.count("emptied_root_states"); }
        ses.reenter();
    }

    void random_ops(std::size_t n) {
        for (std::size_t i = 0; i < n && !failed; ++i) {
            ++ops;
            rep.eval();
            unsigned x = static_cast<unsigned>(r.below(100));
            std::string k = pick_key();
            if (x < 35) {
                do_put(k, false);
            } else if (x < 45) {
                do_put(k, true);
            } else if (x < 75) {
                do_get(k);
            } else {
                do_remove(k);
            }
            if (ops % 16 == 0) { ses.reenter(); }
        }
    }

    void fill_then_drain(std::vector<std::string> ks) {
        // insertion order
        auto order = [&](std::vector<std::string>& v) {
            switch (r.below(4)) {
                case 0: std::sort(v.begin(), v.end()); break;
                case 1: std::sort(v.rbegin(), v.rend()); break;
                case 2: { // zig-zag
                    std::sort(v.begin(), v.end());
                    std::vector<std::string> z;
                    for (std::size_t i = 0, j = v.size(); i < j;) {
                        z.push_back(v[i++]);
                        if (i < j) { z.push_back(v[--j]); }
                    }
                    v.swap(z);
                    break;
                }
                default:
                    for (std::size_t i = v.size(); i > 1; --i) { std::swap(v[i - 1], v[r.below(i)]); }
            }
        };
        for (int cycle = 0; cycle < 2 && !failed; ++cycle) {
            order(ks);
            for (auto& k : ks) {
                if (failed) { break; }
                ++ops;
                rep.eval();
                do_put(k, r.chance(1, 4));
                if (ops % 64 == 0) { checkpoint(); }
            }
            if (!failed) { checkpoint(); }
            order(ks);
            for (auto& k : ks) {
                if (failed) { break; }
                ++ops;
                rep.eval();
                if (r.chance(1, 10)) { do_get(k); }
                do_remove(k);
                if (ops % 64 == 0) { checkpoint(); }
            }
            if (!failed) {
                checkpoint(); // storage empty again: next cycle must behave like a fresh storage
                if (model.empty()) { rep.count("emptied_and_refilled"); }
            }
        }
    }

    void run(int family, std::size_t nops) {
        storage = "m" + std::to_string(prog_id % 3);
        status cs = yk::create_storage(storage);
        if (cs != status::OK) {
            rep.violation("map:create-storage", "create_storage of a fresh name failed", JObj().str("got", st(cs)).done());
            return;
        }
        c0 = alloc::counters();
        ses.reenter();
        TreeGen tg(r, kg);
        switch (family % 7) {
            case 0: random_ops(nops); break;
            case 1: fill_then_drain(tg.keys_for(1)); break;
            case 2: fill_then_drain(tg.keys_for(2)); break;
            case 3: {
                tg.build(ses.tok, storage, model, static_cast<int>(r.below(8)));
                checkpoint();
                random_ops(nops / 2);
                break;
            }
            case 4: fill_then_drain(tg.keys_for(3)); break;
            case 5: fill_then_drain(tg.keys_for(7)); break; // prefix-related keys in one layer, up to several interior levels
            default: {
                // very deep key: hundreds of layers, created and torn down again
                std::string deep(r.range(64, 800), static_cast<char>(kg.abyte()));
                do_put(deep, false);
                do_put(deep.substr(0, deep.size() / 2), false);
                do_get(deep);
                random_ops(nops / 4);
                do_remove(deep);
                do_get(deep.substr(0, deep.size() / 2));
                break;
            }
        }
        if (!failed) { checkpoint(); }
        ses.leave();
        alloc::Counters c1 = alloc::counters();
        uint64_t node_allocs = c1.node_allocs - c0.node_allocs;
        uint64_t node_frees = c1.node_frees - c0.node_frees;
        rep.count("nodes_allocated", node_allocs);
        rep.count("nodes_released", node_frees);
        if (node_allocs > 1) { rep.count("programs_with_structure_change"); }
        if (prog_id < 3) {
            std::vector<std::string> t;
            for (std::size_t i = 0; i < trace.size() && i < 8; ++i) { t.push_back(jesc(trace[i])); }
            rep.sample(JObj().num("program", prog_id).str("family", std::to_string(family % 7)).num("ops", ops).raw("first_ops", jarr(t)).done());
        }
        status ds = yk::delete_storage(storage);
        if (ds != status::OK) { rep.violation("map:delete-storage", "delete_storage failed", JObj().str("got", st(ds)).done()); }
    }
};

} // namespace

int run_map(const Args& a) {
    uint64_t seed = a.num("seed", 1);
    uint64_t programs = a.num("programs", 200);
    uint64_t nops = a.num("ops", 300);
    Report rep(a.str("prop", "C02"), "seq_map", seed);
    rep.set_rule("PRNG operation programs (put/unique-put/get/remove, 7 families: random mix, dense fill+drain in 4 orders, prefix-related variable-length keys fill+drain (interior splits with prefix pivots), "
                 "multi-layer fill+drain, prebuilt tree + mix, link-only fill+drain, deep trie) compared call-by-call with std::map; "
                 "coherence oracle (walker, full scan, backward cursor, point lookups) at every checkpoint. "
                 "distinct_nontrivial = distinct tree-shape signatures with >=1 interior level or >=2 trie layers seen at checkpoints");
    yk::init();
    Rng r(seed);
    KeyGenCfg cfg;
    cfg.huge_key_permille = a.num("huge", 0);
    for (uint64_t p = 0; p < programs; ++p) {
        Prog prog(rep, r, cfg, p);
        prog.run(static_cast<int>(p), nops);
        rep.count("programs");
    }
    yk::fin();
    alloc::Counters c = alloc::counters();
    if (c.live_blocks != 0) {
        rep.violation("map:blocks-live-after-fin", "library blocks still allocated after fin()", JObj().num("live", c.live_blocks).done());
    }
    drain_alloc_problems(rep);
    rep.note("hook_counts", ctl::counts_json());
    if (rep.get("checkpoints") == 0) { rep.inconclusive("no checkpoint reached"); }
    return rep.finish();
}
